package harness

import (
	"bytes"
	"fmt"
	"net/http"
	"strconv"
	"strings"
	"sync"
	"time"

	"github.com/valyala/fasthttp"
	"verif/simrt"
	"verif/simrt/simfs"
	"verif/simrt/simnet"
)

// ---------------- C24: ranges, validators, encodings ----------------

type c24Req struct {
	File   string `json:"file"`
	Range  string `json:"range"`
	AE     string `json:"accept_encoding"`
	IMS    string `json:"if_modified_since"` // "", before, at, after, garbage
	GapMs  int    `json:"gap_ms"`
	Rewrite bool  `json:"file_rewritten_before,omitempty"` // the file gets new content and a newer mtime, then the caches are left to expire
}

type c24Plan struct {
	Compress bool     `json:"compress"`
	Brotli   bool     `json:"brotli"`
	Zstd     bool     `json:"zstd"`
	OwnCompressRoot bool `json:"compress_root_differs_from_root"`
	CacheMs  int      `json:"cache_duration_ms"`
	Short    bool     `json:"short_reads"`
	Mode     string   `json:"mode"`
	Reqs     []c24Req `json:"reqs"`
	Concurrent bool   `json:"concurrent"`
}

var c24Files = []string{"a.txt", "empty.txt", "one.txt", "k8191.bin", "k8192.bin", "k8193.bin", "big.txt", "dir/sub.txt"}

func genRange(e *Env, l int) string {
	num := func() string {
		return strconv.Itoa(Pick(e, 0, 1, 2, l-1, l, l+1, l/2, 8191, 8192, 99, 100, 29999))
	}
	clampNeg := func(s string) string {
		if strings.HasPrefix(s, "-") {
			return "0"
		}
		return s
	}
	switch Pick(e, "ab", "ab", "a-", "-n", "-0", "rev", "multi", "garbage", "overflow", "ws", "unit") {
	case "ab":
		return "bytes=" + clampNeg(num()) + "-" + clampNeg(num())
	case "a-":
		return "bytes=" + clampNeg(num()) + "-"
	case "-n":
		return "bytes=-" + clampNeg(num())
	case "-0":
		return "bytes=-0"
	case "rev":
		return "bytes=50-10"
	case "multi":
		return "bytes=0-1,5-6"
	case "garbage":
		return Pick(e, "bytes=abc", "bytes=", "bytes=-", "bytes=1", "bytes", "bytes=1-2-3", "bytes=--1")
	case "overflow":
		return Pick(e, "bytes=0-99999999999999999999999", "bytes=99999999999999999999999-", "bytes=-99999999999999999999999", "bytes=18446744073709551615-18446744073709551616")
	case "ws":
		return "bytes= 0 - 5"
	}
	return "items=0-5"
}

func scenC24(e *Env) func() {
	p := &c24Plan{OwnCompressRoot: e.Chance(50), Compress: e.Chance(60), Brotli: e.Chance(50), Zstd: e.Chance(50), CacheMs: Pick(e, 200, 10000), Short: e.Chance(40), Mode: Pick(e, "os", "os", "fsfs"), Concurrent: e.Chance(30)}
	n := e.Range(3, 10)
	for i := 0; i < n; i++ {
		f := c24Files[e.Int(len(c24Files))]
		l := map[string]int{"a.txt": 100, "empty.txt": 0, "one.txt": 1, "k8191.bin": 8191, "k8192.bin": 8192, "k8193.bin": 8193, "big.txt": 30000, "dir/sub.txt": 300}[f]
		r := c24Req{File: f, GapMs: Pick(e, 0, 0, 50, 400)}
		switch Pick(e, "range", "range", "ae", "ims", "plain", "range+ae", "range+ims", "ae+ims", "all") {
		case "range+ims":
			r.Range = genRange(e, l)
			r.IMS = Pick(e, "before", "at", "after", "garbage")
		case "ae+ims":
			r.AE = Pick(e, "gzip", "br", "zstd")
			r.IMS = Pick(e, "before", "at", "after")
		case "all":
			r.Range = genRange(e, l)
			r.AE = Pick(e, "gzip", "br")
			r.IMS = Pick(e, "before", "at", "after")
		case "range":
			r.Range = genRange(e, l)
		case "ae":
			r.AE = Pick(e, "gzip", "br", "zstd", "gzip, br", "identity", "deflate", "br;q=0.5, gzip;q=1")
		case "ims":
			r.IMS = Pick(e, "before", "at", "after", "garbage")
		case "range+ae":
			r.Range = genRange(e, l)
			r.AE = "gzip"
		}
		r.Rewrite = e.Chance(12) && r.File != "empty.txt"
		p.Reqs = append(p.Reqs, r)
	}
	e.Sample = p
	return func() { c24Run(e, p) }
}

// refRange: reference interpretation of a single byte-range spec.
// kind: "ok" (start,end), "unsat" (must be 416), "open" (property leaves it open)
func refRange(r string, l int) (kind string, start, end int) {
	if !strings.HasPrefix(r, "bytes=") {
		return "open", 0, 0
	}
	spec := r[len("bytes="):]
	if strings.ContainsAny(spec, ", \t") {
		return "open", 0, 0
	}
	i := strings.IndexByte(spec, '-')
	if i < 0 || strings.Count(spec, "-") != 1 {
		return "open", 0, 0
	}
	a, b := spec[:i], spec[i+1:]
	dec := func(s string) (int, bool) {
		if s == "" || len(s) > 15 {
			return 0, false
		}
		n := 0
		for _, c := range s {
			if c < '0' || c > '9' {
				return 0, false
			}
			n = n*10 + int(c-'0')
		}
		return n, true
	}
	switch {
	case a == "" && b == "":
		return "open", 0, 0
	case a == "":
		n, ok := dec(b)
		if !ok {
			return "open", 0, 0
		}
		if n == 0 || l == 0 {
			return "unsat", 0, 0
		}
		if n > l {
			n = l
		}
		return "ok", l - n, l - 1
	case b == "":
		s, ok := dec(a)
		if !ok {
			return "open", 0, 0
		}
		if s >= l {
			return "unsat", 0, 0
		}
		return "ok", s, l - 1
	}
	s, ok1 := dec(a)
	t, ok2 := dec(b)
	if !ok1 || !ok2 || s > t {
		return "open", 0, 0
	}
	if s >= l {
		return "unsat", 0, 0
	}
	if t >= l {
		t = l - 1
	}
	return "ok", s, t
}

func c24Run(e *Env, p *c24Plan) {
	fx := newFSFixture(e)
	defer fx.cleanup()
	// ParseByteRange invariant, on every generated range and a few lengths
	for _, r := range p.Reqs {
		if r.Range == "" {
			continue
		}
		for _, l := range []int{0, 1, 2, 10, 100, 8192, 30000} {
			s, t, err := fasthttp.ParseByteRange([]byte(r.Range), l)
			e.Ob(1)
			if err == nil && !(0 <= s && s <= t && t < l) {
				e.Violation("parsebyterange-invariant", "ParseByteRange(%q, %d) = (%d, %d, nil): not 0 <= start <= end < length", r.Range, l, s, t)
				return
			}
			if kind, rs, rt := refRange(r.Range, l); err == nil && kind == "ok" && (s != rs || t != rt) {
				e.Violation("parsebyterange-value", "ParseByteRange(%q, %d) = (%d, %d), RFC 9110 gives (%d, %d)", r.Range, l, s, t, rs, rt)
				return
			} else if err == nil && kind == "unsat" {
				e.Violation("parsebyterange-unsat-accepted", "ParseByteRange(%q, %d) = (%d, %d, nil) for an unsatisfiable range", r.Range, l, s, t)
				return
			} else if err != nil && kind == "ok" {
				e.Violation("parsebyterange-rejected", "ParseByteRange(%q, %d) failed (%v) for a satisfiable range %d-%d", r.Range, l, err, rs, rt)
				return
			}
		}
	}
	f := &fasthttp.FS{Compress: p.Compress, CompressBrotli: p.Compress && p.Brotli, CompressZstd: p.Compress && p.Zstd, AcceptByteRange: true, CacheDuration: time.Duration(p.CacheMs) * time.Millisecond, IndexNames: []string{"index.html"}}
	if p.Mode == "fsfs" {
		f.FS = newRecFS(fx.root)
		f.AllowEmptyRoot = true
	} else {
		f.Root = fx.root
		if p.OwnCompressRoot {
			f.CompressRoot = fx.cache
		}
	}
	if p.Short {
		k := 0
		simfs.ShortRead = func(n int) int {
			k++
			e.Fault("short_file_read")
			return 1 + (k*7919)%n
		}
	}
	h := f.NewRequestHandler()
	s := &fasthttp.Server{IdleTimeout: time.Minute}
	k := NewServerKit(e, s)
	k.Handle = func(ctx *fasthttp.RequestCtx, inv *Inv) { h(ctx) }
	k.Start()
	var mu sync.Mutex
	one := func(i int, r c24Req) {
		time.Sleep(time.Duration(r.GapMs) * time.Millisecond)
		if r.Rewrite && !p.Concurrent && p.Mode != "fsfs" {
			// new content, newer mtime; then every cache entry (and compressed copy decision) is left to expire
			fx.rewrite(r.File, fileBytes(r.File+"-v2", len(fx.files[r.File])+7))
			e.Fault("file_rewritten")
			time.Sleep(2*time.Duration(p.CacheMs)*time.Millisecond + 1500*time.Millisecond)
		}
		hdr := ""
		if r.Range != "" {
			hdr += "Range: " + r.Range + "\r\n"
		}
		if r.AE != "" {
			hdr += "Accept-Encoding: " + r.AE + "\r\n"
		}
		switch r.IMS {
		case "before":
			hdr += "If-Modified-Since: " + fx.mtimeOf(r.File).Add(-time.Hour).UTC().Format(http.TimeFormat) + "\r\n"
		case "at":
			hdr += "If-Modified-Since: " + fx.mtimeOf(r.File).UTC().Format(http.TimeFormat) + "\r\n"
		case "after":
			hdr += "If-Modified-Since: " + fx.mtimeOf(r.File).Add(time.Hour).UTC().Format(http.TimeFormat) + "\r\n"
		case "garbage":
			hdr += "If-Modified-Since: yesterday\r\n"
		}
		var resps [2]*Resp
		for mi, method := range []string{"GET", "HEAD"} {
			sc, err := k.NewSeqClient("10.0.24.1", simnet.Faults{})
			if err != nil {
				return
			}
			sc.Send([]byte(fmt.Sprintf("%s /%s HTTP/1.1\r\nHost: x\r\n%s\r\n", method, r.File, hdr)), nil)
			resp, _, err := sc.ReadResp(method, time.Minute)
			sc.C.Close()
			if err != nil || resp == nil {
				e.Violation("no-response", "req %d %s /%s (%s): no parsable response: %v", i, method, r.File, strings.TrimSpace(hdr), err)
				return
			}
			resps[mi] = resp
		}
		mu.Lock()
		defer mu.Unlock()
		c24Judge(e, p, fx, i, r, resps[0], resps[1])
	}
	if p.Concurrent {
		var fsx []func()
		for i, r := range p.Reqs {
			i, r := i, r
			fsx = append(fsx, func() { one(i, r) })
		}
		WaitAll(time.Hour, "req", fsx...)
	} else {
		for i, r := range p.Reqs {
			one(i, r)
			if e.Failed() {
				break
			}
		}
	}
	e.Nontrivial = true
	simfs.ShortRead = nil
	k.Shutdown(time.Minute)
}

func c24Judge(e *Env, p *c24Plan, fx *fsFixture, i int, r c24Req, get, head *Resp) {
	content := fx.files[r.File]
	l := len(content)
	tag := fmt.Sprintf("req %d GET /%s (len %d) Range=%q AE=%q IMS=%q", i, r.File, l, r.Range, r.AE, r.IMS)
	e.Ob(1)
	// HEAD mirrors GET
	for _, hname := range []string{"Content-Length", "Content-Range", "Content-Encoding", "Last-Modified"} {
		if get.Status == head.Status && get.Header.Get(hname) != head.Header.Get(hname) && !(hname == "Content-Length" && get.Status >= 400) {
			e.Violation("head-differs/"+strings.ToLower(hname), "%s: GET has %s=%q, HEAD has %q (status %d)", tag, hname, get.Header.Get(hname), head.Header.Get(hname), get.Status)
			return
		}
	}
	if get.Status != head.Status {
		e.Violation("head-differs/status", "%s: GET status %d, HEAD status %d", tag, get.Status, head.Status)
		return
	}
	if len(head.Body) != 0 {
		e.Violation("head-body", "%s: HEAD response has a %d-byte body", tag, len(head.Body))
		return
	}
	// validators
	if r.IMS == "at" || r.IMS == "after" {
		if get.Status != 304 {
			e.Violation("ims-not-304", "%s: file is not newer than If-Modified-Since, status %d", tag, get.Status)
		}
		return
	}
	if get.Status == 304 {
		e.Violation("ims-304", "%s: 304 although the file is newer than the validator (or there is none)", tag)
		return
	}
	// any 206 is self-consistent
	if get.Status == 206 {
		cr := get.Header.Get("Content-Range")
		var s, t, tot int
		if n, _ := fmt.Sscanf(cr, "bytes %d-%d/%d", &s, &t, &tot); n != 3 || !(0 <= s && s <= t && t < l) || tot != l {
			e.Violation("content-range-invalid", "%s: 206 with Content-Range %q", tag, cr)
			return
		}
		if !bytes.Equal(get.Body, content[s:t+1]) {
			e.Violation("range-body", "%s: 206 %s but the body is not that slice of the file (%d bytes, first difference at %d)", tag, cr, len(get.Body), firstDiff(get.Body, content[s:t+1]))
			return
		}
	}
	if r.Range != "" {
		kind, s, t := refRange(r.Range, l)
		switch kind {
		case "ok":
			want := fmt.Sprintf("bytes %d-%d/%d", s, t, l)
			if get.Status != 206 || get.Header.Get("Content-Range") != want {
				e.Violation("range-not-206", "%s: expected 206 with Content-Range %q, got %d %q", tag, want, get.Status, get.Header.Get("Content-Range"))
			}
		case "unsat":
			if get.Status != 416 {
				disc := "range"
				if r.Range == "bytes=-0" {
					disc = "suffix-zero"
				}
				e.Violation("unsat-not-416/"+disc, "%s: unsatisfiable range answered %d (Content-Range %q)", tag, get.Status, get.Header.Get("Content-Range"))
			}
		default:
			e.Probe("range-open")
		}
		return
	}
	// full content
	if get.Status != 200 {
		e.Violation("not-200", "%s: status %d", tag, get.Status)
		return
	}
	enc := get.Header.Get("Content-Encoding")
	if enc != "" {
		e.Probe("compressed-" + enc)
		if !strings.Contains(r.AE, enc) {
			e.Violation("encoding-not-accepted", "%s: Content-Encoding %q is not in Accept-Encoding", tag, enc)
			return
		}
	}
	body, err := decodeBody(enc, get.Body)
	if err != nil || !bytes.Equal(body, content) {
		e.Violation("content", "%s: body (encoding %q) does not decode to the file: err=%v, %d bytes vs %d (first difference at %d)", tag, enc, err, len(body), l, firstDiff(body, content))
		return
	}
	if lm := get.Header.Get("Last-Modified"); lm != fx.mtimeOf(r.File).UTC().Format(http.TimeFormat) {
		e.Violation("last-modified", "%s: Last-Modified %q, file mtime %q", tag, lm, fx.mtimeOf(r.File).UTC().Format(http.TimeFormat))
	}
}

// ---------------- C25: handles closed exactly once, never read after close ----------------

type c25Req struct {
	File   string `json:"file"`
	GapMs  int    `json:"gap_ms"`
	Window int    `json:"client_window"`
	SlowMs int    `json:"client_read_pause_ms"`
	AE     string `json:"accept_encoding"`
	Abort  int    `json:"abort_after_bytes"`
}

type c25Plan struct {
	CacheMs   int      `json:"cache_duration_ms"`
	SkipCache bool     `json:"skip_cache"`
	Compress  bool     `json:"compress"`
	StopMs    int      `json:"clean_stop_ms"` // -1 never
	Cleanup   bool     `json:"run_cleanup"`
	SeekFaultEvery int `json:"seek_fault_every,omitempty"` // every n-th rewind of a file handle fails (I/O error)
	Reqs      []c25Req `json:"reqs"`
}

func scenC25(e *Env) func() {
	p := &c25Plan{CacheMs: Pick(e, 100, 300, 1000), SkipCache: e.Chance(25), Compress: e.Chance(40), StopMs: Pick(e, -1, -1, 0, 200, 1500), Cleanup: e.Chance(50)}
	if e.Chance(20) {
		p.SeekFaultEvery = Pick(e, 1, 2, 3)
	}
	alignStop := p.StopMs >= 0 && e.Chance(50)
	n := e.Range(4, 12)
	for i := 0; i < n; i++ {
		p.Reqs = append(p.Reqs, c25Req{File: Pick(e, "a.txt", "big.txt", "big.txt", "k8193.bin", "dir/sub.txt", "one.txt"), GapMs: Pick(e, 0, 0, 50, 200, 600, 1500), Window: Pick(e, 0, 0, 100, 2000), SlowMs: Pick(e, 0, 0, 50, 400), AE: Pick(e, "", "", "gzip"), Abort: Pick(e, 0, 0, 0, 500)})
	}
	if alignStop {
		// CleanStop is closed at the instant one of the requests is served (and its reader
		// lets go of the file): the two then interleave at lock granularity
		r := p.Reqs[e.Int(len(p.Reqs))]
		p.StopMs = r.GapMs + Pick(e, 0, 0, r.SlowMs)
	}
	e.Sample = p
	e.Cfg.Holds, e.Cfg.HoldMax = Pick(e, 0, 0, 2), 200*time.Millisecond
	return func() { c25Run(e, p) }
}

func c25Run(e *Env, p *c25Plan) {
	fx := newFSFixture(e)
	defer fx.cleanup()
	if p.SeekFaultEvery > 0 {
		nseek := 0
		simfs.FailSeek = func(h *simfs.Handle, off int64, whence int) error {
			if off == 0 && whence == 0 { // io.SeekStart
				nseek++
				if nseek%p.SeekFaultEvery == 0 {
					e.Fault("seek_error")
					return simfs.EIO
				}
			}
			return nil
		}
	}
	stop := make(chan struct{})
	f := &fasthttp.FS{Root: fx.root, CompressRoot: fx.cache, Compress: p.Compress, CacheDuration: time.Duration(p.CacheMs) * time.Millisecond, SkipCache: p.SkipCache, CleanStop: stop, AcceptByteRange: true}
	h := f.NewRequestHandler()
	s := &fasthttp.Server{IdleTimeout: time.Minute}
	k := NewServerKit(e, s)
	k.Handle = func(ctx *fasthttp.RequestCtx, inv *Inv) { h(ctx) }
	k.Start()
	if p.StopMs >= 0 {
		Go("clean-stop", func() {
			time.Sleep(time.Duration(p.StopMs) * time.Millisecond)
			close(stop)
			e.Fault("clean_stop")
		})
	}
	var fsx []func()
	for i, r := range p.Reqs {
		i, r := i, r
		fsx = append(fsx, func() {
			time.Sleep(time.Duration(r.GapMs) * time.Millisecond)
			conn, err := k.Dial("10.0.25.1")
			if err != nil {
				return
			}
			conn.Peer().F.Window = r.Window
			ae := ""
			if r.AE != "" {
				ae = "Accept-Encoding: " + r.AE + "\r\n"
			}
			conn.Write([]byte(fmt.Sprintf("GET /%s HTTP/1.1\r\nHost: x\r\nConnection: close\r\n%s\r\n", r.File, ae)))
			buf := make([]byte, 1024)
			total := 0
			for {
				conn.SetReadDeadline(time.Now().Add(time.Minute))
				n, err := conn.Read(buf)
				total += n
				if r.Abort > 0 && total >= r.Abort {
					conn.Reset()
					e.Fault("client_abort")
					return
				}
				if err != nil {
					break
				}
				if r.SlowMs > 0 {
					time.Sleep(time.Duration(r.SlowMs) * time.Millisecond)
				}
			}
			conn.Close()
			_ = i
		})
	}
	if !WaitAll(2*time.Hour, "req", fsx...) {
		e.Violation("liveness/clients", "clients did not finish")
		return
	}
	e.Nontrivial = true
	// quiescence: two cleaner periods after the last response
	time.Sleep(2*time.Duration(p.CacheMs)*time.Millisecond + 3*time.Second)
	if p.Cleanup {
		// the handler is no longer referenced: its cleanup (cache manager Close) runs
		if n := simrt.RunCleanups(); n > 0 {
			e.Fault("handler_cleanup")
		}
		time.Sleep(2*time.Duration(p.CacheMs)*time.Millisecond + time.Second)
	} else if p.StopMs < 0 {
		close(stop)
		time.Sleep(2*time.Duration(p.CacheMs)*time.Millisecond + time.Second)
	}
	_, hs := simfs.Snapshot()
	for _, hd := range hs {
		e.Ob(1)
		ctxs := "cached"
		if p.SkipCache {
			ctxs = "skipcache"
		}
		if hd.Created {
			ctxs = "tempfile"
		}
		if hd.ReadAfterClose > 0 {
			e.Violation("read-after-close/"+ctxs, "file %s (handle %d): %d reads after Close", hd.Path, hd.ID, hd.ReadAfterClose)
			return
		}
		if hd.Closes > 1 {
			e.Violation("closed-twice/"+ctxs, "file %s (handle %d) was closed %d times", hd.Path, hd.ID, hd.Closes)
			return
		}
		if hd.Closes == 0 {
			e.Violation("never-closed/"+ctxs, "file %s (handle %d) is still open after every response finished, the cache expired and the cleaner ran (stop_ms=%d cleanup=%v)", hd.Path, hd.ID, p.StopMs, p.Cleanup)
			return
		}
	}
	k.Shutdown(time.Minute)
}
