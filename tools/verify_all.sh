#!/bin/bash
# verify_all.sh <ID>... : runs verify_seed.sh for every /tmp/seeds/<ID>/<k> that has a patch and no verify.txt yet (4 at a time)
for ID in "$@"; do for k in 1 2 3; do d=/tmp/seeds/$ID/$k; [ -f $d/patch.diff ] && [ ! -f $d/verify.txt ] && echo $d; done; done |
  xargs -r -P ${PAR:-4} -I{} sh -c '/verif/tools/verify_seed.sh {} > {}/verify.txt.tmp 2>&1; mv {}/verify.txt.tmp {}/verify.txt; echo "{} $(grep RESULT {}/verify.txt)"'
