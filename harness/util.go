package harness

import (
	"regexp"
	"sort"
	"strings"
	"time"

	"verif/simrt"
)

func simrtEpoch() time.Time { return simrt.Epoch }

// Now is the simulated time since the start of the run.
func Now() time.Duration { return time.Since(simrt.Epoch) }

// panicOrigin returns the innermost non-runtime function of a panic stack
// captured by a deferred recover (the function that panicked).
func panicOrigin(stack string) string {
	lines := strings.Split(stack, "\n")
	seenPanic := false
	for _, l := range lines {
		if strings.HasPrefix(l, "\t") || l == "" {
			continue
		}
		if strings.HasPrefix(l, "panic(") {
			seenPanic = true
			continue
		}
		if !seenPanic {
			continue
		}
		if strings.HasPrefix(l, "runtime.") {
			continue
		}
		// standard-library frames (bufio, io, crypto/tls ...) panic on behalf of their
		// caller: the origin is the innermost frame of fasthttp, its dependencies or the harness
		if !strings.Contains(l, "github.com/") && !strings.HasPrefix(l, "verif/") && !strings.HasPrefix(l, "golang.org/") {
			continue
		}
		return l
	}
	return ""
}

// tapeHash identifies the generated workload (plan) of a run.
func tapeHash(rec []uint32) uint64 {
	h := uint64(1469598103934665603)
	for _, v := range rec {
		h ^= uint64(v)
		h *= 1099511628211
	}
	return h
}

// sortedKeys returns the keys of a string-keyed map in sorted order (the
// harness never iterates a Go map directly where the order could matter).
func sortedKeys[V any](m map[string]V) []string {
	ks := make([]string, 0, len(m))
	for k := range m {
		ks = append(ks, k)
	}
	sort.Strings(ks)
	return ks
}

var frameArgs = regexp.MustCompile(`\([^()]*\)$`)

// frameFunc reduces a stack frame line ("pkg/path.(*T).Method(0xc000, {0x1, 0x2})")
// to "path.(*T).Method": no argument values (they are addresses) in a signature.
func frameFunc(origin string) string {
	fn := origin[strings.LastIndex(origin, "/")+1:]
	fn = strings.TrimSuffix(fn, "(...)")
	fn = frameArgs.ReplaceAllString(fn, "")
	return fn
}
