package harness

import (
	"errors"
	"fmt"
	"net"
	"net/http"
	"time"

	"github.com/valyala/fasthttp"
	"verif/simrt/simnet"
)

// C38: PipelineClient deadline calls return on time with bounded queues; a call
// failing with ErrPipelineOverflow never has its request transmitted.

type c38Call struct {
	ID        string    `json:"id"`
	API       string    `json:"api"` // deadline | timeout | do
	TimeoutMs int       `json:"timeout_ms"`
	GapMs     int       `json:"gap_ms"`
	Act       srvAction `json:"server"`
}

type c38Plan struct {
	MaxPending int         `json:"max_pending_requests"`
	MaxConns   int         `json:"max_conns"`
	BatchMs    int         `json:"max_batch_delay_ms"`
	Server     string      `json:"server"` // normal | refuse | stall-all
	Callers    [][]c38Call `json:"callers"`
}

func init() { scenarios["C38"] = scenC38 }

func scenC38(e *Env) func() {
	p := &c38Plan{MaxPending: Pick(e, 1, 2, 4), MaxConns: Pick(e, 1, 1, 2), BatchMs: Pick(e, 0, 0, 1, 20), Server: Pick(e, "normal", "normal", "normal", "refuse", "stall-all")}
	n := e.Range(2, 10)
	for ci := 0; ci < n; ci++ {
		var cs []c38Call
		m := e.Range(1, 2)
		for i := 0; i < m; i++ {
			a := srvAction{Status: 200, BodyLen: Pick(e, 10, 500), Framing: "cl", DelayMs: Pick(e, 0, 0, 5, 100, 1000, 5000)}
			switch Pick(e, "ok", "ok", "ok", "stall", "eof", "reset") {
			case "stall":
				a.Stall = true
			case "eof":
				a.EOFBefore = true
			case "reset":
				a.CloseAt = 15
			}
			cs = append(cs, c38Call{ID: fmt.Sprintf("%d-%d", ci, i), API: Pick(e, "deadline", "timeout", "timeout", "do"), TimeoutMs: Pick(e, 5, 50, 300, 2000), GapMs: Pick(e, 0, 0, 0, 1, 30, 400), Act: a})
		}
		p.Callers = append(p.Callers, cs)
	}
	e.Sample = p
	e.Cfg.Holds, e.Cfg.HoldMax = Pick(e, 0, 0, 2), 50*time.Millisecond
	return func() { c38Run(e, p) }
}

func c38Run(e *Env, p *c38Plan) {
	fs := NewFakeServer(e, "10.0.0.2", 80)
	acts := map[string]srvAction{}
	for _, cs := range p.Callers {
		for _, c := range cs {
			a := c.Act
			if p.Server == "stall-all" {
				a.Stall = true
			}
			acts[c.ID] = a
		}
	}
	fs.Plan = func(id string, req *http.Request) srvAction { return acts[id] }
	if p.Server != "refuse" {
		fs.Start()
	} else {
		fs.Ln.Close()
	}
	holdBudget := time.Duration(e.Cfg.Holds) * e.Cfg.HoldMax
	port := 33000
	pc := &fasthttp.PipelineClient{Addr: "10.0.0.2:80", MaxConns: p.MaxConns, MaxPendingRequests: p.MaxPending, MaxBatchDelay: time.Duration(p.BatchMs) * time.Millisecond,
		ReadTimeout: 30 * time.Second, WriteTimeout: 30 * time.Second, Logger: nullLogger{},
		Dial: func(addr string) (net.Conn, error) {
			port++
			return e.Net.Dial(tcpAddr("10.0.38.1", port), addr)
		}}
	type outcome struct {
		err  error
		took time.Duration
	}
	outs := map[string]outcome{}
	var fsx []func()
	for ci := range p.Callers {
		ci := ci
		fsx = append(fsx, func() {
			for _, c := range p.Callers[ci] {
				time.Sleep(time.Duration(c.GapMs) * time.Millisecond)
				req, resp := fasthttp.AcquireRequest(), fasthttp.AcquireResponse()
				req.SetRequestURI("http://10.0.0.2/pl?id=" + c.ID)
				start := Now()
				var err error
				d := time.Duration(c.TimeoutMs) * time.Millisecond
				switch c.API {
				case "deadline", "timeout":
					// the call runs in a task of its own: one that is still out long after its
					// deadline is reported at once (waiting for it would only end at the run's
					// step limit, as "unfinished" instead of as the violation it is)
					done := make(chan error, 1)
					api := c.API
					Go("pl-call", func() {
						if api == "deadline" {
							done <- pc.DoDeadline(req, resp, time.Now().Add(d))
						} else {
							done <- pc.DoTimeout(req, resp, d)
						}
					})
					select {
					case err = <-done:
					case <-time.After(d + holdBudget + 30*time.Second):
						e.Violation("late-return/never", "%s(%v) for %s had not returned %v after its deadline", c.API, d, c.ID, holdBudget+30*time.Second)
						return
					}
				default:
					done := make(chan error, 1)
					Go("pl-do", func() { done <- pc.Do(req, resp) })
					// Do has no deadline: give it an hour and do not judge its timing
					select {
					case err = <-done:
					case <-time.After(5 * time.Second):
						err = errors.New("harness: Do still pending after 5 s (no deadline: not judged)")
					}
				}
				took := Now() - start
				e.Ob(1)
				if err == nil {
					e.Nontrivial = true
					if got := string(resp.Header.Peek("X-Id")); got != c.ID {
						e.Violation("crossed", "call %s returned the response tagged %q", c.ID, got)
						return
					}
				}
				if c.API != "do" {
					e.Nontrivial = true // a deadline call was judged on its return time
					if took > d+holdBudget+time.Second {
						e.Violation("late-return", "%s(%v) for %s returned after %v with %v", c.API, d, c.ID, took, err)
						return
					}
					switch {
					case err == nil, errors.Is(err, fasthttp.ErrTimeout), errors.Is(err, fasthttp.ErrPipelineOverflow):
					default:
						e.Probe("conn-error")
					}
				}
				outs[c.ID] = outcome{err, took}
				if errors.Is(err, fasthttp.ErrPipelineOverflow) {
					e.Probe("overflow")
				}
				if errors.Is(err, fasthttp.ErrTimeout) {
					e.Probe("timeout")
				}
			}
		})
	}
	if !WaitAll(3*time.Hour, "caller", fsx...) {
		e.Violation("liveness/callers", "a PipelineClient deadline call never returned")
		return
	}
	// let in-flight writes drain, then: an overflowed request never reaches the server
	if p.Server == "refuse" {
		time.Sleep(2 * time.Second) // the worker redials in a loop: don't burn steps
	} else {
		time.Sleep(40 * time.Second)
	}
	for _, id := range sortedKeys(outs) {
		o := outs[id]
		if errors.Is(o.err, fasthttp.ErrPipelineOverflow) {
			e.Ob(1)
			if n := len(fs.Requests(id)); n > 0 {
				e.Violation("overflow-transmitted", "call %s failed with ErrPipelineOverflow, yet its request reached the server %d times", id, n)
				return
			}
		}
	}
	e.Ob(1)
	if n := pc.PendingRequests(); n != 0 && p.Server == "normal" {
		stalled := false
		for _, a := range acts {
			if a.Stall {
				stalled = true
			}
		}
		if !stalled {
			e.Violation("pending-not-zero", "PendingRequests()=%d after every call returned and the connections drained", n)
		}
	}
	_ = simnet.ErrRefused
	fs.Ln.Close()
}
