// Package simexec provides simulated child processes: it replaces os/exec.Cmd
// in the instrumented prefork package so that the supervision logic can be
// driven by scripted children (exit at a time, ignore SIGTERM, fail to start).
package simexec

import (
	"errors"
	"io"
	"os"
	"sync"
	"syscall"
	"time"

	"verif/simrt"
)

// Event is one ledger entry.
type Event struct {
	Kind string // spawn signal kill reap exit
	Pid  int
	At   time.Duration
	Step int
}

var (
	mu     sync.Mutex
	Ledger []Event
)

//go:norace
func record(kind string, pid int) {
	simrt.RaceOff()
	mu.Lock()
	Ledger = append(Ledger, Event{kind, pid, time.Since(simrt.Epoch), simrt.Step()})
	mu.Unlock()
	simrt.RaceOn()
}

// Events returns a copy of the ledger.
//
//go:norace
func Events() []Event {
	simrt.RaceOff()
	mu.Lock()
	out := append([]Event(nil), Ledger...)
	mu.Unlock()
	simrt.RaceOn()
	return out
}

type Process struct {
	Pid        int
	exited     chan struct{}
	once       sync.Once
	IgnoreTerm bool
	TermDelay  time.Duration
	done       bool
}

func (p *Process) exit() {
	p.once.Do(func() {
		p.done = true
		record("exit", p.Pid)
		close(p.exited)
	})
}

// Alive reports whether the simulated process is still running.
func (p *Process) Alive() bool {
	select {
	case <-p.exited:
		return false
	default:
		return true
	}
}

func (p *Process) Signal(sig os.Signal) error {
	simrt.Gate("proc.signal", nil)
	if !p.Alive() {
		return os.ErrProcessDone
	}
	record("signal", p.Pid)
	if sig == syscall.SIGTERM && !p.IgnoreTerm {
		d := p.TermDelay
		simrt.Go("child-term", func() {
			if d > 0 {
				time.Sleep(d)
			}
			p.exit()
		})
	}
	return nil
}

func (p *Process) Kill() error {
	simrt.Gate("proc.kill", nil)
	if !p.Alive() {
		return os.ErrProcessDone
	}
	record("kill", p.Pid)
	p.exit()
	return nil
}

// Cmd mirrors the parts of os/exec.Cmd the prefork package uses.
type Cmd struct {
	Path       string
	Args       []string
	Env        []string
	Stdout     io.Writer
	Stderr     io.Writer
	ExtraFiles []*os.File
	Process    *Process
	ExitErr    error
	waited     bool
}

// Start is never used with simulated children (the harness's CommandProducer
// hands over started commands); a prefork that falls back to re-executing the
// binary must not do so inside the simulation.
func (c *Cmd) Start() error { return errors.New("simexec: real child processes are not available in the simulation") }

func (c *Cmd) Wait() error {
	simrt.Gate("proc.wait", nil)
	if c.Process == nil {
		return errors.New("simexec: not started")
	}
	<-c.Process.exited
	if c.waited {
		return errors.New("simexec: Wait was already called")
	}
	c.waited = true
	record("reap", c.Process.Pid)
	return c.ExitErr
}

// Spawn creates a started simulated child that exits by itself after life
// (never if life < 0).
func Spawn(pid int, life time.Duration, exitErr error, ignoreTerm bool, termDelay time.Duration) *Cmd {
	p := &Process{Pid: pid, exited: make(chan struct{}), IgnoreTerm: ignoreTerm, TermDelay: termDelay}
	c := &Cmd{Process: p, ExitErr: exitErr}
	record("spawn", pid)
	if life >= 0 {
		simrt.Go("child-life", func() {
			tm := time.NewTimer(life)
			select {
			case <-tm.C:
				p.exit()
			case <-p.exited:
				tm.Stop()
			}
		})
	}
	return c
}
