package harness

import (
	"bytes"
	"fmt"
	"strings"
	"time"

	"github.com/valyala/fasthttp"
	"verif/simrt"
	"verif/simrt/simnet"
)

// C01: server request framing follows RFC 9112 (no request smuggling).

type c01Conn struct {
	Descs  []string `json:"messages"`
	Stream string   `json:"stream"`
	Cuts   []int    `json:"cuts"`
	Pauses []int    `json:"pauses_ms"`
	Faults bool     `json:"net_faults"`
	IP     string   `json:"ip"`
}

type c01Plan struct {
	ReduceMem   bool      `json:"reduce_memory_usage"`
	NoNormalize bool      `json:"disable_header_names_normalizing"`
	GetOnly     bool      `json:"get_only"`
	NoPreParse  bool      `json:"disable_preparse_multipart"`
	ReadBuf     int       `json:"read_buffer_size"`
	Conns       []c01Conn `json:"conns"`
	Concurrent  bool      `json:"concurrent"`
}

func init() { scenarios["C01"] = scenC01 }

// smuggled returns body bytes that are themselves a well-formed request, so a
// framing disagreement shows up as a handler invocation for "/smuggled-<id>".
func smuggled(id string, n int) []byte {
	s := "GET /smuggled-" + id + " HTTP/1.1\r\nHost: x\r\n\r\n"
	for len(s) < n {
		s += s
	}
	return []byte(s[:n])
}

type msgGen struct {
	e       *Env
	nl      string
	b       bytes.Buffer
	tailHdr string
}

func (g *msgGen) line(s string) {
	if s == "" && g.tailHdr != "" {
		// a header placed after the framing fields (the last one in the head)
		t := g.tailHdr
		g.tailHdr = ""
		g.line(t)
	}
	g.b.WriteString(s)
	nl := g.nl
	if nl == "mixed" {
		nl = Pick(g.e, "\r\n", "\n")
	}
	g.b.WriteString(nl)
}

func chunkedEncode(e *Env, body []byte, variant string) []byte {
	var b bytes.Buffer
	cuts := e.Cuts(len(body), 3)
	off := 0
	hugeAt, hugeSize := 0, ""
	if variant == "huge" {
		var nz []int
		for i, n := range cuts {
			if n != 0 {
				nz = append(nz, i)
			}
		}
		if len(nz) > 0 {
			hugeAt = nz[e.Int(len(nz))]
		}
		hugeSize = Pick(e, "ffffffffffffffffff", "ffffffffffffffff", "fffffffffffffffe", "fffffffffffffffd", "8000000000000000", "7fffffffffffffff", "10000000000000000", "fffffffffffffff0", "FFFFFFFFFFFFFFFE")
	}
	for i, n := range cuts {
		if n == 0 {
			continue
		}
		size := fmt.Sprintf("%x", n)
		switch variant {
		case "upper":
			size = strings.ToUpper(size)
		case "ext":
			size += ";name=value"
		case "ext-ws":
			size += " ;x"
		case "ext-lf":
			if i == 0 {
				size += ";x=\ny"
			}
		case "ext-lf-end":
			if i == 0 {
				size += ";x\n"
			}
		case "0x":
			if i == 0 {
				size = "0x" + size
			}
		case "leading-zeros":
			size = "000" + size
		case "ws-after":
			size += " "
		case "plus":
			if i == 0 {
				size = "+" + size
			}
		case "huge":
			// sizes around the 64-bit boundary (16 hex digits with the top bit
			// set wrap negative in a careless accumulator), at any chunk
			if i == hugeAt {
				size = hugeSize
			}
		}
		b.WriteString(size)
		if variant == "lf-size" && i == 0 {
			b.WriteString("\n")
		} else {
			b.WriteString("\r\n")
		}
		b.Write(body[off : off+n])
		off += n
		switch {
		case variant == "no-crlf-after-data" && i == 0:
		case variant == "lf-after-data" && i == 0:
			b.WriteString("\n")
		case variant == "junk-after-data" && i == 0:
			b.WriteString("XY")
		default:
			b.WriteString("\r\n")
		}
	}
	b.WriteString("0\r\n")
	switch variant {
	case "trailer":
		b.WriteString("X-Trailer: 1\r\n")
	case "bad-trailer":
		b.WriteString("no colon here\r\n")
	case "forbidden-trailer":
		b.WriteString("Content-Length: 5\r\n")
	case "request-trailer":
		// a malformed trailer section shaped like a request
		b.WriteString("GET /smuggled-trailer HTTP/1.1\r\nHost: x\r\n")
	}
	if variant == "lf-final" {
		b.WriteString("\n")
	} else {
		b.WriteString("\r\n")
	}
	return b.Bytes()
}

func genC01Msg(e *Env, id string, canary bool) (desc string, out []byte) {
	g := &msgGen{e: e, nl: "\r\n"}
	if !canary {
		g.nl = Pick(e, "\r\n", "\r\n", "\r\n", "\r\n", "\n", "mixed")
		if e.Chance(25) {
			g.tailHdr = Pick(e, "Connection: keep-alive", "Connection: keep-alive", "Connection: Keep-Alive, foo", "Connection: upgrade", "X-Last: 1")
		}
	}
	if !canary && e.Chance(8) {
		g.b.WriteString(Pick(e, "\r\n", "\n", "\r\n\r\n"))
	}
	kind := "get"
	if !canary {
		kind = Pick(e, "get", "cl", "cl", "chunked", "chunked", "adv", "adv", "adv", "adv", "head", "cl0", "expect", "expect", "mp-epilogue")
	}
	ver := "HTTP/1.1"
	if !canary && e.Chance(12) {
		ver = "HTTP/1.0"
	}
	target := "/m-" + id
	if canary {
		target = "/canary-" + id
	}
	body := smuggled(id, Pick(e, 5, 1, 0, 37, 43, 86, 300))
	hdr := func() {
		g.line("Host: x")
		if e.Chance(20) {
			g.line("X-Pad: " + strings.Repeat("p", Pick(e, 1, 30, 200)))
		}
		if ver == "HTTP/1.0" && e.Chance(60) {
			g.line("Connection: keep-alive")
		}
	}
	desc = kind
	switch kind {
	case "get", "head":
		m := "GET"
		if kind == "head" {
			m = "HEAD"
		}
		g.line(m + " " + target + " " + ver)
		hdr()
		g.line("")
	case "cl0":
		g.line("POST " + target + " " + ver)
		hdr()
		g.line("Content-Length: 0")
		g.line("")
	case "expect":
		// the server answers 100 Continue by itself; the client sends the body anyway
		// (also on HTTP/1.0, where the expectation means nothing but the body is framed all the same)
		g.line("POST " + target + " " + ver)
		hdr()
		g.line("Expect: " + Pick(e, "100-continue", "100-continue", "100-Continue"))
		if ver == "HTTP/1.1" && e.Chance(30) {
			g.line("Transfer-Encoding: chunked")
			g.line("")
			g.b.Write(chunkedEncode(e, body, "plain"))
		} else {
			g.line(fmt.Sprintf("Content-Length: %d", len(body)))
			g.line("")
			g.b.Write(body)
		}
	case "mp-epilogue":
		// a multipart body whose closing boundary is followed by an epilogue
		// that looks like a request: all of it is inside Content-Length
		mp := "--c01b\r\nContent-Disposition: form-data; name=\"f\"\r\n\r\nv\r\n--c01b--\r\n" + string(smuggled(id, Pick(e, 43, 86, 300, 5000)))
		g.line("POST " + target + " " + ver)
		hdr()
		g.line("Content-Type: multipart/form-data; boundary=c01b")
		g.line(fmt.Sprintf("Content-Length: %d", len(mp)))
		g.line("")
		g.b.WriteString(mp)
	case "cl":
		g.line(Pick(e, "POST", "PUT", "DELETE", "PATCH") + " " + target + " " + ver)
		hdr()
		g.line(fmt.Sprintf("Content-Length: %d", len(body)))
		g.line("")
		g.b.Write(body)
	case "chunked":
		ver = "HTTP/1.1"
		g.line("POST " + target + " " + ver)
		hdr()
		g.line("Transfer-Encoding: chunked")
		g.line("")
		v := Pick(e, "plain", "plain", "upper", "ext", "trailer", "leading-zeros")
		desc += ":" + v
		g.b.Write(chunkedEncode(e, body, v))
	case "adv":
		cls := Pick(e, "cl-dup-same", "cl-dup-diff", "cl-list-same", "cl-list-diff", "cl-plus", "cl-minus", "cl-overflow", "cl-padded", "cl-inner-space", "cl-hex", "cl-empty", "cl-trailing-junk",
			"te10", "te-identity", "te-identity-cl", "te-gzip-chunked", "te-chunked-identity", "te-chunked-chunked", "te-dup-lines", "te-case", "te-xchunked", "te-chunked-gzip",
			"cl-te", "te-cl", "cl-ws-colon", "te-ws-colon", "cl-fold", "te-fold", "cl-te-smaller",
			"chunk-no-crlf-after-data", "chunk-lf-after-data", "chunk-junk-after-data", "chunk-0x", "chunk-huge", "chunk-plus", "chunk-ws-after", "chunk-ext-ws", "chunk-lf-size", "chunk-lf-final", "chunk-bad-trailer", "chunk-ext-lf", "chunk-ext-lf-end",
			"cl-lower", "te-tab")
		desc = cls
		clv := fmt.Sprintf("%d", len(body))
		chunkedBody := func(v string) []byte { return chunkedEncode(e, body, v) }
		req := func(v string) { g.line("POST " + target + " " + v); hdr() }
		switch cls {
		case "cl-dup-same":
			req(ver)
			g.line("Content-Length: " + clv)
			g.line("Content-Length: " + clv)
			g.line("")
			g.b.Write(body)
		case "cl-dup-diff":
			req(ver)
			g.line("Content-Length: " + clv)
			g.line("Content-Length: 0")
			g.line("")
			g.b.Write(body)
		case "cl-list-same":
			req(ver)
			g.line("Content-Length: " + clv + ", " + clv)
			g.line("")
			g.b.Write(body)
		case "cl-list-diff":
			req(ver)
			g.line("Content-Length: 0, " + clv)
			g.line("")
			g.b.Write(body)
		case "cl-plus":
			req(ver)
			g.line("Content-Length: +" + clv)
			g.line("")
			g.b.Write(body)
		case "cl-minus":
			req(ver)
			g.line("Content-Length: -" + clv)
			g.line("")
			g.b.Write(body)
		case "cl-overflow":
			req(ver)
			g.line("Content-Length: " + Pick(e, "18446744073709551616", "9223372036854775808", "99999999999999999999999", "18446744073709551621"))
			g.line("")
			g.b.Write(body)
		case "cl-padded":
			req(ver)
			g.line("Content-Length:   " + clv + "  ")
			g.line("")
			g.b.Write(body)
		case "cl-inner-space":
			req(ver)
			g.line("Content-Length: " + clv + " 0")
			g.line("")
			g.b.Write(body)
		case "cl-hex":
			req(ver)
			g.line("Content-Length: 0x" + clv)
			g.line("")
			g.b.Write(body)
		case "cl-empty":
			req(ver)
			g.line("Content-Length:")
			g.line("")
			g.b.Write(body)
		case "cl-trailing-junk":
			req(ver)
			g.line("Content-Length: " + clv + "abc")
			g.line("")
			g.b.Write(body)
		case "cl-lower":
			req(ver)
			g.line("content-length: " + clv)
			g.line("")
			g.b.Write(body)
		case "te10":
			req("HTTP/1.0")
			g.line("Transfer-Encoding: chunked")
			g.line("")
			g.b.Write(chunkedBody("plain"))
		case "te-identity":
			req("HTTP/1.1")
			g.line("Transfer-Encoding: identity")
			g.line("")
			g.b.Write(body)
		case "te-identity-cl":
			req("HTTP/1.1")
			g.line("Transfer-Encoding: identity")
			g.line("Content-Length: " + clv)
			g.line("")
			g.b.Write(body)
		case "te-gzip-chunked":
			req("HTTP/1.1")
			g.line("Transfer-Encoding: gzip, chunked")
			g.line("")
			g.b.Write(chunkedBody("plain"))
		case "te-chunked-gzip":
			req("HTTP/1.1")
			g.line("Transfer-Encoding: chunked, gzip")
			g.line("")
			g.b.Write(chunkedBody("plain"))
		case "te-chunked-identity":
			req("HTTP/1.1")
			g.line("Transfer-Encoding: chunked, identity")
			g.line("")
			g.b.Write(chunkedBody("plain"))
		case "te-chunked-chunked":
			req("HTTP/1.1")
			g.line("Transfer-Encoding: chunked, chunked")
			g.line("")
			g.b.Write(chunkedBody("plain"))
		case "te-dup-lines":
			req("HTTP/1.1")
			g.line("Transfer-Encoding: " + Pick(e, "chunked", "gzip", "identity"))
			g.line("Transfer-Encoding: " + Pick(e, "chunked", "identity"))
			g.line("")
			g.b.Write(chunkedBody("plain"))
		case "te-case":
			req("HTTP/1.1")
			g.line(Pick(e, "Transfer-Encoding: Chunked", "transfer-encoding: CHUNKED", "TRANSFER-ENCODING: chunked"))
			g.line("")
			g.b.Write(chunkedBody("plain"))
		case "te-tab":
			req("HTTP/1.1")
			g.line("Transfer-Encoding:\tchunked\t")
			g.line("")
			g.b.Write(chunkedBody("plain"))
		case "te-xchunked":
			req("HTTP/1.1")
			g.line("Transfer-Encoding: " + Pick(e, "xchunked", "chunkedx", "chunked;q=1", "\"chunked\""))
			g.line("")
			g.b.Write(chunkedBody("plain"))
		case "cl-te":
			req("HTTP/1.1")
			g.line("Content-Length: " + clv)
			g.line("Transfer-Encoding: chunked")
			g.line("")
			g.b.Write(chunkedBody("plain"))
		case "te-cl":
			req("HTTP/1.1")
			g.line("Transfer-Encoding: chunked")
			g.line("Content-Length: " + clv)
			g.line("")
			g.b.Write(chunkedBody("plain"))
		case "cl-te-smaller":
			req("HTTP/1.1")
			g.line("Content-Length: 4")
			g.line("Transfer-Encoding: chunked")
			g.line("")
			g.b.Write(chunkedBody("plain"))
		case "cl-ws-colon":
			req(ver)
			g.line("Content-Length : " + clv)
			g.line("")
			g.b.Write(body)
		case "te-ws-colon":
			req("HTTP/1.1")
			g.line("Transfer-Encoding : chunked")
			g.line("")
			g.b.Write(chunkedBody("plain"))
		case "cl-fold":
			req(ver)
			g.line("Content-Length: " + clv)
			g.line(" 0")
			g.line("")
			g.b.Write(body)
		case "te-fold":
			req("HTTP/1.1")
			g.line("Transfer-Encoding: chunked")
			g.line("\t, identity")
			g.line("")
			g.b.Write(chunkedBody("plain"))
		default: // chunk-*
			req("HTTP/1.1")
			g.line("Transfer-Encoding: chunked")
			g.line("")
			g.b.Write(chunkedBody(strings.TrimPrefix(cls, "chunk-")))
		}
	}
	return desc, g.b.Bytes()
}

func scenC01(e *Env) func() {
	p := &c01Plan{
		ReduceMem:   e.Chance(30),
		NoNormalize: e.Chance(25),
		GetOnly:     e.Chance(8),
		NoPreParse:  e.Chance(30),
		ReadBuf:     Pick(e, 4096, 4096, 512, 256, 128, 8192),
		Concurrent:  e.Bool(),
	}
	nconn := e.Range(2, 5)
	for ci := 0; ci < nconn; ci++ {
		c := c01Conn{IP: "10.0.1." + fmt.Sprint(1+ci)}
		var stream []byte
		nmsg := e.Range(1, 5)
		for mi := 0; mi < nmsg; mi++ {
			d, b := genC01Msg(e, fmt.Sprintf("%d-%d", ci, mi), false)
			c.Descs = append(c.Descs, d)
			stream = append(stream, b...)
		}
		_, b := genC01Msg(e, fmt.Sprint(ci), true)
		stream = append(stream, b...)
		c.Stream = string(stream)
		c.Cuts = e.Cuts(len(stream), Pick(e, 0, 1, 3, 8))
		for range c.Cuts {
			c.Pauses = append(c.Pauses, Pick(e, 0, 0, 0, 1, 20, 1500))
		}
		c.Faults = e.Chance(30)
		p.Conns = append(p.Conns, c)
	}
	e.Sample = p
	e.Cfg.Holds, e.Cfg.HoldMax = Pick(e, 0, 0, 1, 3), 2*time.Second
	subs := make([]simnet.Faults, nconn)
	for i := range subs {
		if p.Conns[i].Faults {
			subs[i] = simnet.Faults{Seg: e.W.Sub(), Lat: e.W.Sub(), Short: e.W.Sub()}
		}
	}
	return func() {
		s := &fasthttp.Server{
			ReduceMemoryUsage:             p.ReduceMem,
			DisableHeaderNamesNormalizing: p.NoNormalize,
			GetOnly:                       p.GetOnly,
			DisablePreParseMultipartForm:  p.NoPreParse,
			ReadBufferSize:                p.ReadBuf,
			IdleTimeout:                   20 * time.Second,
			ReadTimeout:                   40 * time.Second,
		}
		k := NewServerKit(e, s)
		k.Start()
		exs := make([]*Exchange, nconn)
		var fs []func()
		for ci := range p.Conns {
			ci := ci
			fs = append(fs, func() {
				c := p.Conns[ci]
				var segs []Seg
				off := 0
				total := time.Duration(0)
				for i, n := range c.Cuts {
					d := time.Duration(c.Pauses[i]) * time.Millisecond
					segs = append(segs, Seg{Data: []byte(c.Stream[off : off+n]), Pause: d})
					off += n
					total += d
				}
				exs[ci] = k.RunClient(c.IP, segs, total+60*time.Second, subs[ci], nil)
			})
		}
		if p.Concurrent {
			if !WaitAll(30*time.Minute, "conn", fs...) {
				e.Violation("liveness/clients", "client connections did not finish within 30 simulated minutes")
				return
			}
		} else {
			for _, f := range fs {
				f()
			}
		}
		for ci, c := range p.Conns {
			c01Judge(e, k, ci, c, exs[ci])
		}
		k.Shutdown(time.Minute)
	}
}

func c01Judge(e *Env, k *ServerKit, ci int, c c01Conn, ex *Exchange) {
	if ex == nil || ex.Addr == "" {
		return
	}
	ref := refParse([]byte(c.Stream))
	invs := k.Invs(ex.Addr)
	firstBad := len(ref)
	for i, m := range ref {
		if m.Kind != refOK {
			firstBad = i
			break
		}
	}
	if len(invs) > 0 {
		e.Nontrivial = true
	}
	for i, inv := range invs {
		if i < firstBad {
			m := ref[i]
			e.Ob(1)
			construct := "plain"
			for _, n := range []string{"bare-lf", "obs-fold", "leading-empty-line", "ws-before-colon", "te-extra-codings", "trailers", "chunk-ext"} {
				if m.note(n) {
					construct = n
					break
				}
			}
			if inv.Method != m.Method || inv.URI != m.Target {
				if !e.Violation("boundary/"+construct, "conn %d: handler invocation %d is %s %s but RFC 9112 framing makes message %d %s %s (stream %q)", ci, i, inv.Method, inv.URI, i, m.Method, m.Target, clip(c.Stream, 400)) {
					return
				}
				return
			}
			if i < len(c.Descs) && c.Descs[i] == "mp-epilogue" {
				// a pre-parsed multipart body is handed over as a form, not as
				// the original bytes: only its boundaries are judged
				continue
			}
			if !bytes.Equal(inv.Body, m.Body) {
				if !e.Violation("body/"+construct, "conn %d: invocation %d (%s %s) got body %q, RFC 9112 framing gives %q", ci, i, inv.Method, inv.URI, clip(string(inv.Body), 120), clip(string(m.Body), 120)) {
					return
				}
				return
			}
			continue
		}
		// i >= firstBad
		bad := ref[firstBad]
		switch bad.Kind {
		case refAmbig:
			if i > firstBad {
				e.Ob(1)
				if !e.Violation("no-follow/"+bad.Class, "conn %d: message %d has ambiguous framing (%s) yet the handler was invoked again for %s %s (descs %v)", ci, firstBad, bad.Class, inv.Method, inv.URI, c.Descs) {
					return
				}
				return
			}
		case refIncomplete:
			e.Ob(1)
			if !e.Violation("incomplete-served", "conn %d: message %d is incomplete in the stream yet a handler ran for %s %s", ci, firstBad, inv.Method, inv.URI) {
				return
			}
			return
		case refOutside:
			e.Probe("outside-" + bad.Class)
			return // no verdict from here on
		}
	}
	// an ambiguous message that was served must be the last thing on the connection
	if firstBad < len(ref) && ref[firstBad].Kind == refAmbig && len(invs) == firstBad+1 {
		e.Ob(1)
		e.Probe("ambig-served-then-closed")
		if ex.Open {
			e.Violation("no-close/"+ref[firstBad].Class, "conn %d: message %d has ambiguous framing (%s), was served, and the connection was left open", ci, firstBad, ref[firstBad].Class)
		}
	}
	if firstBad < len(ref) && ref[firstBad].Kind == refAmbig && len(invs) <= firstBad {
		e.Probe("ambig-rejected")
	}
	_ = simrt.Step
}

func clip(s string, n int) string {
	if len(s) > n {
		return s[:n] + "…"
	}
	return s
}
