package harness

import (
	"bytes"
	"crypto/ed25519"
	"crypto/tls"
	"crypto/x509"
	"crypto/x509/pkix"
	"errors"
	"fmt"
	"math/big"
	"net"
	"net/http"
	"strings"
	"sync"
	"time"

	"github.com/valyala/fasthttp"
	"verif/simrt/simnet"
)

// C21: https requests are never sent over a plaintext connection (and http
// requests never over a connection pooled for https).

type c21Req struct {
	ID       string `json:"id"` // "s-…" https, "p-…" http
	Host     string `json:"host"`
	GapMs    int    `json:"gap_ms"`
	Redirect string `json:"redirect"` // "", same, cross: the server redirects once to the same / the other scheme
	Via      string `json:"via"` // client | host-tls | host-plain | lb
	SchemeAs string `json:"scheme_spelling,omitempty"` // "" | upper | title : schemes are case-insensitive
}

type c21Plan struct {
	Reqs      []c21Req `json:"reqs"`
	Concurrent bool    `json:"concurrent"`
	Verify    bool     `json:"verify_certificates"`    // per-host certificates, one shared client tls.Config with RootCAs and no ServerName
	Transport bool     `json:"custom_transport"`       // HostClients get a Transport that delegates to fasthttp.DefaultTransport
	MaxConns  int      `json:"max_conns,omitempty"`    // 0: default
	WaitMs    int      `json:"max_conn_wait_timeout_ms,omitempty"`
	SrvCloses bool     `json:"server_answers_connection_close,omitempty"`
	CloseIdleMs []int  `json:"close_idle_connections_at_ms,omitempty"` // every client's CloseIdleConnections, during the (concurrent) traffic
}

// c21Delegate is the smallest custom RoundTripper: it hands everything to the default transport.
type c21Delegate struct{}

func (c21Delegate) RoundTrip(hc *fasthttp.HostClient, req *fasthttp.Request, resp *fasthttp.Response) (bool, error) {
	return fasthttp.DefaultTransport.RoundTrip(hc, req, resp)
}

func init() { scenarios["C21"] = scenC21 }

type zeroReader struct{}

func (zeroReader) Read(p []byte) (int, error) {
	for i := range p {
		p[i] = 0x5a
	}
	return len(p), nil
}

func c21TLSConfig(names ...string) *tls.Config {
	seed := bytes.Repeat([]byte{7 + byte(len(names[0])) + names[0][1]}, ed25519.SeedSize)
	key := ed25519.NewKeyFromSeed(seed)
	tmpl := &x509.Certificate{SerialNumber: big.NewInt(int64(1 + names[0][1])), Subject: pkix.Name{CommonName: "sim-" + names[0]}, NotBefore: time.Date(1990, 1, 1, 0, 0, 0, 0, time.UTC), NotAfter: time.Date(2100, 1, 1, 0, 0, 0, 0, time.UTC),
		DNSNames: names, KeyUsage: x509.KeyUsageDigitalSignature | x509.KeyUsageCertSign, IsCA: true, BasicConstraintsValid: true, ExtKeyUsage: []x509.ExtKeyUsage{x509.ExtKeyUsageServerAuth}}
	der, err := x509.CreateCertificate(zeroReader{}, tmpl, tmpl, key.Public(), key)
	if err != nil {
		panic(err)
	}
	return &tls.Config{Certificates: []tls.Certificate{{Certificate: [][]byte{der}, PrivateKey: key}}, MinVersion: tls.VersionTLS12, MaxVersion: tls.VersionTLS12, Rand: zeroReader{}, SessionTicketsDisabled: true}
}

func scenC21(e *Env) func() {
	p := &c21Plan{Concurrent: e.Chance(40), Verify: e.Chance(50), Transport: e.Chance(25)}
	if e.Chance(35) {
		// pressure on the pool: waiters are served by dials made on their behalf
		p.Concurrent, p.MaxConns, p.WaitMs, p.SrvCloses = true, 1, Pick(e, 200, 5000, 60000), e.Chance(70)
	}
	n := e.Range(2, 8)
	for i := 0; i < n; i++ {
		scheme := Pick(e, "s", "p")
		r := c21Req{ID: fmt.Sprintf("%s-%d", scheme, i), Host: Pick(e, "h1.test", "h1.test", "h2.test"), GapMs: Pick(e, 0, 0, 10, 2000, 130000), Redirect: Pick(e, "", "", "", "same", "cross"), Via: Pick(e, "client", "client", "client", "host-tls", "host-plain", "lb"), SchemeAs: Pick(e, "", "", "", "upper", "title")}
		p.Reqs = append(p.Reqs, r)
	}
	if p.Concurrent {
		for i, n := 0, Pick(e, 0, 0, 1, 3); i < n; i++ {
			p.CloseIdleMs = append(p.CloseIdleMs, Pick(e, 0, 1, 10, 2000, 2001))
		}
	}
	e.Sample = p
	return func() { c21Run(e, p) }
}

func c21Run(e *Env, p *c21Plan) {
	ips := map[string]string{"h1.test": "10.21.0.1", "h2.test": "10.21.0.2"}
	srvCfgs := map[string]*tls.Config{"h1.test": c21TLSConfig("h1.test", "h2.test"), "h2.test": c21TLSConfig("h1.test", "h2.test")}
	if p.Verify {
		srvCfgs = map[string]*tls.Config{"h1.test": c21TLSConfig("h1.test"), "h2.test": c21TLSConfig("h2.test")}
	}
	type hello struct{ endpoint, sni string }
	var hellos []hello
	var mu sync.Mutex
	type seen struct {
		id, host string
		tls      bool
	}
	var log []seen
	byID := map[string]*c21Req{}
	for i := range p.Reqs {
		byID[p.Reqs[i].ID] = &p.Reqs[i]
	}
	var servers []*FakeServer
	for _, host := range []string{"h1.test", "h2.test"} { // fixed order: Go map iteration is random
		ip := ips[host]
		for _, isTLS := range []bool{false, true} {
			host, isTLS := host, isTLS
			port := 80
			if isTLS {
				port = 443
			}
			fs := NewFakeServer(e, ip, port)
			if isTLS {
				cfg := srvCfgs[host].Clone()
				cfg.GetConfigForClient = func(chi *tls.ClientHelloInfo) (*tls.Config, error) {
					mu.Lock()
					hellos = append(hellos, hello{host, chi.ServerName})
					mu.Unlock()
					return nil, nil
				}
				fs.Wrap = func(c net.Conn) net.Conn { return tls.Server(c, cfg) }
			}
			fs.Plan = func(id string, req *http.Request) srvAction {
				mu.Lock()
				log = append(log, seen{id, host, isTLS})
				mu.Unlock()
				a := srvAction{Status: 200, BodyLen: 12, Framing: "cl", ConnClose: p.SrvCloses}
				r := byID[strings.TrimSuffix(id, "-r")]
				if r != nil && r.Redirect != "" && !strings.HasSuffix(id, "-r") {
					// redirect once; the redirected request is tagged by the scheme it must use
					https := isTLS
					if r.Redirect == "cross" {
						https = !https
					}
					scheme, tag := "http", "p"
					if https {
						scheme, tag = "https", "s"
					}
					a.Status = 302
					a.Location = fmt.Sprintf("%s://%s/x?id=%s-%s-r", scheme, host, tag, strings.SplitN(id, "-", 2)[1])
				}
				return a
			}
			fs.Start()
			servers = append(servers, fs)
		}
	}
	portN := 36000
	var dials []string
	dial := func(addr string) (net.Conn, error) {
		host, prt, err := net.SplitHostPort(addr)
		if err != nil {
			return nil, err
		}
		ip, ok := ips[host]
		if !ok {
			return nil, fmt.Errorf("harness: unknown host %q", host)
		}
		mu.Lock()
		portN++
		dials = append(dials, addr)
		pn := portN
		mu.Unlock()
		return e.Net.Dial(tcpAddr("10.21.9.9", pn), ip+":"+prt)
	}
	cliCfg := &tls.Config{InsecureSkipVerify: true, MinVersion: tls.VersionTLS12, MaxVersion: tls.VersionTLS12, Rand: zeroReader{}}
	if p.Verify {
		// one caller-supplied configuration shared by every host: trusted roots, no ServerName
		pool := x509.NewCertPool()
		for _, h := range []string{"h1.test", "h2.test"} {
			c, err := x509.ParseCertificate(srvCfgs[h].Certificates[0].Certificate[0])
			if err != nil {
				panic(err)
			}
			pool.AddCert(c)
		}
		cliCfg = &tls.Config{RootCAs: pool, MinVersion: tls.VersionTLS12, MaxVersion: tls.VersionTLS12, Rand: zeroReader{}}
	}
	wait := time.Duration(p.WaitMs) * time.Millisecond
	cl := &fasthttp.Client{Dial: dial, TLSConfig: cliCfg, ReadTimeout: time.Minute, MaxIdleConnDuration: 30 * time.Second, MaxConnsPerHost: p.MaxConns, MaxConnWaitTimeout: wait}
	hostClients := map[string]*fasthttp.HostClient{}
	var hcMu sync.Mutex
	getHC := func(host string, isTLS bool) *fasthttp.HostClient {
		key := fmt.Sprint(host, isTLS)
		hcMu.Lock()
		defer hcMu.Unlock()
		if hc := hostClients[key]; hc != nil {
			return hc
		}
		port := "80"
		if isTLS {
			port = "443"
		}
		hc := &fasthttp.HostClient{Addr: host + ":" + port, IsTLS: isTLS, Dial: dial, TLSConfig: cliCfg, ReadTimeout: time.Minute, MaxConns: p.MaxConns, MaxConnWaitTimeout: wait}
		if p.Transport {
			hc.Transport = c21Delegate{}
		}
		hostClients[key] = hc
		return hc
	}
	do := func(r c21Req) {
		time.Sleep(time.Duration(r.GapMs) * time.Millisecond)
		https := strings.HasPrefix(r.ID, "s-")
		scheme := "http"
		if https {
			scheme = "https"
		}
		switch r.SchemeAs {
		case "upper":
			scheme = strings.ToUpper(scheme)
		case "title":
			scheme = strings.ToUpper(scheme[:1]) + scheme[1:]
		}
		url := fmt.Sprintf("%s://%s/x?id=%s", scheme, r.Host, r.ID)
		req, resp := fasthttp.AcquireRequest(), fasthttp.AcquireResponse()
		req.SetRequestURI(url)
		var err error
		ndBefore := 0
		mu.Lock()
		ndBefore = len(dials)
		mu.Unlock()
		switch r.Via {
		case "host-tls", "host-plain":
			hc := getHC(r.Host, r.Via == "host-tls")
			if r.Redirect != "" {
				err = hc.DoRedirects(req, resp, 3)
			} else {
				err = hc.Do(req, resp)
			}
			if hc.IsTLS != https {
				e.Ob(1)
				mu.Lock()
				nd := len(dials)
				mu.Unlock()
				if !errors.Is(err, fasthttp.ErrHostClientRedirectToDifferentScheme) {
					e.Violation("hostclient-scheme-accepted", "HostClient{IsTLS:%v} executed %s (err=%v)", hc.IsTLS, url, err)
				} else if nd != ndBefore && !p.Concurrent {
					e.Violation("hostclient-scheme-dialled", "HostClient{IsTLS:%v} dialled for %s before refusing it", hc.IsTLS, url)
				}
				return
			}
		case "lb":
			lb := &fasthttp.LBClient{Clients: []fasthttp.BalancingClient{getHC(r.Host, https)}, Timeout: 30 * time.Second}
			err = lb.Do(req, resp)
		default:
			if r.Redirect != "" {
				err = cl.DoRedirects(req, resp, 3)
			} else {
				err = cl.Do(req, resp)
			}
		}
		if err == nil {
			e.Nontrivial = true
			if https && p.Verify {
				e.Probe("https-ok-verified")
			} else if https {
				e.Probe("https-ok")
			}
		} else if https {
			e.Probe("https-error")
		}
	}
	if p.Concurrent {
		var fsx []func()
		for _, r := range p.Reqs {
			r := r
			fsx = append(fsx, func() { do(r) })
		}
		for _, at := range p.CloseIdleMs {
			at := at
			fsx = append(fsx, func() {
				time.Sleep(time.Duration(at) * time.Millisecond)
				cl.CloseIdleConnections()
				hcMu.Lock()
				var hcs []*fasthttp.HostClient
				for _, k := range sortedKeys(hostClients) {
					hcs = append(hcs, hostClients[k])
				}
				hcMu.Unlock()
				for _, hc := range hcs {
					hc.CloseIdleConnections()
				}
			})
		}
		if !WaitAll(3*time.Hour, "caller", fsx...) {
			e.Violation("liveness/callers", "client calls did not return")
			return
		}
	} else {
		for _, r := range p.Reqs {
			do(r)
		}
	}
	// inside view: which ids were received by which kind of endpoint
	mu.Lock()
	defer mu.Unlock()
	for _, s := range log {
		e.Ob(1)
		wantTLS := strings.HasPrefix(s.id, "s-")
		if wantTLS != s.tls {
			kind := "https-over-plaintext"
			if s.tls {
				kind = "http-over-tls"
			}
			e.Violation(kind, "request %s was received by the %s endpoint of %s", s.id, map[bool]string{true: "TLS (443)", false: "plaintext (80)"}[s.tls], s.host)
			return
		}
	}
	// own host: every TLS session was opened for the host whose endpoint it reached
	for _, h := range hellos {
		e.Ob(1)
		if h.sni != h.endpoint {
			e.Violation("sni-mismatch", "a TLS connection to %s:443 was opened with server name %q", h.endpoint, h.sni)
			return
		}
	}
	// raw tap: an https-tagged id never appears in cleartext on any connection
	for _, c := range e.Net.Conns {
		if c.Server {
			continue
		}
		raw := c.Sent()
		e.Ob(1)
		if i := bytes.Index(raw, []byte("id=s-")); i >= 0 {
			e.Violation("https-id-in-cleartext", "connection %s -> %s carries an https request in cleartext: %q", c.LocalAddr(), c.RemoteAddr(), clip(string(raw[i:]), 60))
			return
		}
		if strings.HasSuffix(c.RemoteAddr().String(), ":443") && bytes.Contains(raw, []byte("HTTP/1.1\r\n")) {
			e.Violation("plaintext-on-443", "connection to %s carries a cleartext HTTP request", c.RemoteAddr())
			return
		}
	}
	for _, fs := range servers {
		fs.Ln.Close()
	}
	_ = simnet.ErrRefused
}
