package harness

import (
	"fmt"
	"net"
	"strconv"
	"strings"
	"sync/atomic"
	"time"

	"github.com/valyala/fasthttp"
	"verif/simrt/simnet"
)

// C16: timed-out handlers cannot affect what is sent.

type c16Req struct {
	ID       string `json:"id"`
	Kind     string `json:"kind"` // wrapped | explicit
	SleepA   int    `json:"sleep_a_ms"`
	SleepB   int    `json:"sleep_b_ms"`
	GapMs    int    `json:"gap_before_ms"`
	Hijack   bool   `json:"hijack_before_timeout"`
	NoResp   bool   `json:"hijack_no_response"`
	Rewrite  bool   `json:"handler_rewrites_request_first,omitempty"` // a handler certain to time out first rewrites its own request (method HEAD, protocol HTTP/1.0): the response still belongs to the request as it was received
	Conn     string `json:"connection,omitempty"` // "" | close (Connection: close) | http10 (HTTP/1.0 without keep-alive): the response ends the connection
}

type c16Plan struct {
	TimeoutMs   int        `json:"timeout_ms"`
	Code        int        `json:"code"` // 0: TimeoutHandler (408)
	Concurrency int        `json:"concurrency"`
	NoKeepalive bool       `json:"disable_keepalive,omitempty"`
	Conns       [][]c16Req `json:"conns"`
}

func init() { scenarios["C16"] = scenC16 }

func scenC16(e *Env) func() {
	p := &c16Plan{TimeoutMs: Pick(e, 1, 10, 100, 1000), Code: Pick(e, 0, 0, 503, 504), Concurrency: Pick(e, 1, 2, 3, 8)}
	p.NoKeepalive = e.Chance(12)
	nconn := e.Range(1, 3)
	t := p.TimeoutMs
	for ci := 0; ci < nconn; ci++ {
		var rs []c16Req
		n := e.Range(1, 4)
		for i := 0; i < n; i++ {
			r := c16Req{ID: fmt.Sprintf("%d-%d", ci, i), Kind: Pick(e, "wrapped", "wrapped", "wrapped", "explicit", "explicit-resp"), GapMs: Pick(e, 0, 0, 1, t, 3*t)}
			r.SleepA = Pick(e, 0, t/2, t-1, t, t+1, 2*t, 5*t)
			r.SleepB = Pick(e, 0, 1, t, 3*t)
			if r.SleepA < 0 {
				r.SleepA = 0
			}
			// a handler certain to time out asks for the connection first
			r.Hijack = r.SleepA >= 5*t && e.Chance(40)
			r.NoResp = e.Chance(50)
			r.Rewrite = r.SleepA >= 5*t && !r.Hijack && e.Chance(40)
			r.Conn = Pick(e, "", "", "", "close", "http10")
			rs = append(rs, r)
		}
		p.Conns = append(p.Conns, rs)
	}
	e.Sample = p
	e.Cfg.Holds, e.Cfg.HoldMax = Pick(e, 0, 0, 2, 4), time.Duration(t)*time.Millisecond
	return func() { c16Run(e, p) }
}

func c16Run(e *Env, p *c16Plan) {
	const msg = "handler-timeout-msg"
	timeout := time.Duration(p.TimeoutMs) * time.Millisecond
	holdBudget := time.Duration(0)
	if e.Cfg.Holds > 0 {
		holdBudget = time.Duration(e.Cfg.Holds) * e.Cfg.HoldMax
	}
	byID := map[string]*c16Req{}
	for ci := range p.Conns {
		for i := range p.Conns[ci] {
			byID[p.Conns[ci][i].ID] = &p.Conns[ci][i]
		}
	}
	var running, peak int32
	work := func(ctx *fasthttp.RequestCtx) {
		id := string(ctx.QueryArgs().Peek("id"))
		if string(ctx.QueryArgs().Peek("kind")) == "wrapped" {
			// only handlers behind TimeoutHandler are bounded by Concurrency
			n := atomic.AddInt32(&running, 1)
			for {
				pk := atomic.LoadInt32(&peak)
				if n <= pk || atomic.CompareAndSwapInt32(&peak, pk, n) {
					break
				}
			}
			defer atomic.AddInt32(&running, -1)
		}
		r := byID[id]
		if r == nil {
			return
		}
		if r.Hijack {
			ctx.HijackSetNoResponse(r.NoResp)
			ctx.Hijack(func(c net.Conn) { c.Write([]byte("HIJACKED-" + id)) })
		}
		if r.Rewrite {
			ctx.Request.Header.SetMethod("HEAD")
			ctx.Request.Header.SetProtocol("HTTP/1.0")
		}
		time.Sleep(time.Duration(r.SleepA) * time.Millisecond)
		ctx.SetStatusCode(298)
		ctx.Response.Header.Set("X-Late", "A-"+id)
		ctx.Response.Header.Set("X-Own-"+id, "A")
		ctx.SetBodyString("A-" + id)
		ctx.SetUserValue("late", id)
		time.Sleep(time.Duration(r.SleepB) * time.Millisecond)
		ctx.SetStatusCode(299)
		ctx.Response.Header.Set("X-Late", "B-"+id)
		ctx.Response.Header.Set("X-Own-"+id, "B")
		var c fasthttp.Cookie
		c.SetKey("late")
		c.SetValue(id)
		ctx.Response.Header.SetCookie(&c)
		ctx.SetBodyString("B-" + id)
	}
	var wrapped fasthttp.RequestHandler
	if p.Code == 0 {
		wrapped = fasthttp.TimeoutHandler(work, timeout, msg)
	} else {
		wrapped = fasthttp.TimeoutWithCodeHandler(work, timeout, msg, p.Code)
	}
	s := &fasthttp.Server{Concurrency: p.Concurrency, IdleTimeout: 5 * time.Minute, DisableKeepalive: p.NoKeepalive}
	k := NewServerKit(e, s)
	k.Handle = func(ctx *fasthttp.RequestCtx, inv *Inv) {
		if kind := string(ctx.QueryArgs().Peek("kind")); kind != "wrapped" {
			id := string(ctx.QueryArgs().Peek("id"))
			// the documented pattern: a goroutine keeps using ctx, the handler
			// declares the timeout before returning
			done := make(chan struct{})
			Go("explicit-late", func() { work(ctx); close(done) })
			tm := time.NewTimer(timeout)
			select {
			case <-done:
				tm.Stop()
			case <-tm.C:
				if kind == "explicit-resp" {
					// the usual idiom: build a response, hand it over, recycle it
					r := fasthttp.AcquireResponse()
					r.SetStatusCode(408)
					r.SetBodyString(msg)
					r.Header.Set("X-Timeout-Resp", id)
					ctx.TimeoutErrorWithResponse(r)
					r.SetStatusCode(297)
					r.SetBodyString("MUTATED-" + id)
					fasthttp.ReleaseResponse(r)
				} else {
					ctx.TimeoutErrorWithCode(msg, 408)
				}
			}
			return
		}
		wrapped(ctx)
	}
	k.Start()
	time.Sleep(time.Second)
	type out struct {
		id   string
		resp *Resp
	}
	outs := make([][]out, len(p.Conns))
	var fs []func()
	for ci := range p.Conns {
		ci := ci
		fs = append(fs, func() {
			sc, err := k.NewSeqClient(fmt.Sprintf("10.0.16.%d", ci+1), simnet.Faults{})
			if err != nil {
				return
			}
			defer func() { sc.C.Close() }()
			reconnect := false
			for _, r := range p.Conns[ci] {
				time.Sleep(time.Duration(r.GapMs) * time.Millisecond)
				if reconnect {
					// the previous response ended the connection: go on over a new one
					sc.C.Close()
					if sc, err = k.NewSeqClient(fmt.Sprintf("10.0.16.%d", ci+1), simnet.Faults{}); err != nil {
						return
					}
					reconnect = false
				}
				proto, extra := "HTTP/1.1", ""
				switch r.Conn {
				case "close":
					extra = "Connection: close\r\n"
				case "http10":
					proto = "HTTP/1.0"
				}
				req := fmt.Sprintf("GET /t?id=%s&kind=%s %s\r\nHost: x\r\n%s\r\n", r.ID, r.Kind, proto, extra)
				if sc.Send([]byte(req), nil) != nil {
					return
				}
				resp, _, err := sc.ReadResp("GET", 10*time.Minute)
				if err != nil {
					e.Violation("response-missing", "request %s (%s, hijack-before-timeout=%v) got no well-formed response: %v; all bytes the server sent on the connection: %q", r.ID, r.Kind, r.Hijack, err, clip(string(sc.C.Peer().Sent()), 200))
					return
				}
				outs[ci] = append(outs[ci], out{r.ID, resp})
				if resp.Close || r.Conn == "http10" {
					if r.Hijack {
						return
					}
					reconnect = true
				}
			}
		})
	}
	if !WaitAll(3*time.Hour, "conn", fs...) {
		e.Violation("liveness/clients", "clients did not get their responses")
		return
	}
	e.Nontrivial = true
	code := p.Code
	if code == 0 {
		code = 408
	}
	for ci := range outs {
		for _, o := range outs[ci] {
			r := byID[o.id]
			resp := o.resp
			e.Ob(1)
			total := time.Duration(r.SleepA+r.SleepB) * time.Millisecond
			wantCode := code
			if r.Kind != "wrapped" {
				wantCode = 408
			}
			isTimeout := resp.Status == wantCode && string(resp.Body) == msg
			if r.Kind == "explicit-resp" && isTimeout && resp.Header.Get("X-Timeout-Resp") != o.id {
				e.Violation("timeout-response-altered", "request %s: the response passed to TimeoutErrorWithResponse carried X-Timeout-Resp: %s, the one sent carries %q", o.id, o.id, resp.Header.Get("X-Timeout-Resp"))
				return
			}
			isOwn := resp.Status == 299 && string(resp.Body) == "B-"+o.id && resp.Header.Get("X-Own-"+o.id) == "B" && resp.Header.Get("X-Late") == "B-"+o.id
			is429 := resp.Status == 429 && r.Kind == "wrapped"
			// anything set by a handler other than this request's own is a leak
			for name, vals := range resp.Header {
				if strings.HasPrefix(name, "X-Own-") && name != "X-Own-"+o.id {
					e.Violation("late-write-leaked/header", "response to %s carries %s: %v, set by another (timed-out) handler", o.id, name, vals)
					return
				}
			}
			if v := resp.Header.Get("X-Late"); v != "" && !strings.HasSuffix(v, "-"+o.id) {
				e.Violation("late-write-leaked/header", "response to %s carries X-Late: %s from another handler", o.id, v)
				return
			}
			if b := string(resp.Body); (strings.HasPrefix(b, "A-") || strings.HasPrefix(b, "B-")) && !strings.HasSuffix(b, "-"+o.id) {
				e.Violation("late-write-leaked/body", "response to %s has body %q written by another handler", o.id, b)
				return
			}
			if resp.Status == 503 && strings.Contains(string(resp.Body), "Concurrency limit exceeded") {
				e.Probe("connection-rejected-503")
				continue // the connection itself was refused: not this property's subject
			}
			switch {
			case is429:
				e.Probe("429")
				if p.Concurrency >= 8 {
					e.Violation("429-below-limit", "request %s got 429 with Concurrency=%d and at most %d requests in the run", o.id, p.Concurrency, len(byID))
					return
				}
			case isTimeout:
				e.Probe("timeout-response")
				if total+holdBudget < timeout {
					e.Violation("timeout-too-early", "request %s: handler needs %v, timeout %v, yet the timeout response was sent", o.id, total, timeout)
					return
				}
				// the timeout response is exactly status+message
				if resp.Header.Get("X-Late") != "" || len(resp.Header.Values("Set-Cookie")) > 0 || resp.Header.Get("X-Own-"+o.id) != "" {
					e.Violation("timeout-response-dirty", "timeout response of %s carries handler-set headers: %v", o.id, resp.Header)
					return
				}
			case isOwn:
				e.Probe("own-response")
				// (a wrapper that is slow to look at its select may find the handler done and the
				// timer expired, and may then legitimately pick the handler's result)
				if total > timeout+holdBudget+time.Millisecond {
					e.Violation("late-response-sent", "request %s: handler needs %v > timeout %v, yet its own output was sent", o.id, total, timeout)
					return
				}
			default:
				e.Violation("mixed-response", "request %s (%s, needs %v, timeout %v): response is neither its handler's output, the timeout response nor 429: status %d body %q X-Late=%q cookies=%v", o.id, r.Kind, total, timeout, resp.Status, clip(string(resp.Body), 80), resp.Header.Get("X-Late"), resp.Header.Values("Set-Cookie"))
				return
			}
		}
	}
	e.Ob(1)
	if int(peak) > p.Concurrency {
		e.Violation("bound", "%d wrapped handlers ran at once with Concurrency=%d", peak, p.Concurrency)
		return
	}
	_ = strconv.Itoa
	k.Shutdown(10 * time.Minute)
}
