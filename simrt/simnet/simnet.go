// Package simnet is the simulated network: in-memory listeners and full-duplex
// connections with TCP-like addresses, deadlines on the (fake) clock, the error
// shapes real sockets return, and injectable faults. Every operation starts
// with a scheduler gate.
package simnet

import (
	"errors"
	"io"
	"net"
	"os"
	"sync"
	"syscall"
	"time"

	"verif/simrt"
)

// Faults configures one direction-pair of a connection. The zero value is a
// perfect, instantaneous link.
type Faults struct {
	// Seg cuts every Write into segments; Lat delays each segment (order is
	// preserved). Short makes Read return fewer bytes than available.
	Seg   *simrt.Sub
	Lat   *simrt.Sub
	Short *simrt.Sub
	// Window bounds undelivered+unread bytes per direction (0: 1 MiB).
	Window int
	// FailWriteAt >0: the Write that would carry byte number FailWriteAt (1-based)
	// of this endpoint's output writes the bytes before it and fails (reset).
	FailWriteAt int64
	// FailReadAt >0: once this endpoint has read FailReadAt bytes, further
	// reads fail with a reset.
	FailReadAt int64
	// BlackholeAt >0: output bytes from number BlackholeAt on are accepted but
	// never delivered.
	BlackholeAt int64
	// CloseErr: Close closes the endpoint and then reports an error (the
	// way close(2) on a reset socket or a TLS close_notify write can).
	CloseErr bool
}

var latencies = []time.Duration{0, 0, 0, 0, time.Millisecond, 5 * time.Millisecond, 50 * time.Millisecond, 300 * time.Millisecond}

type seg struct {
	b  []byte
	at time.Time
}

type half struct {
	buf      []byte
	inflight []seg
	pending  int // bytes in inflight
	fin      bool
	rst      bool
	rdWake   chan struct{}
	wrWake   chan struct{}
	total    int64 // bytes accepted from the writer
	read     int64 // bytes handed to the reader
	tap      []byte
	lastAt   time.Time
}

func newHalf() *half {
	return &half{rdWake: make(chan struct{}, 1), wrWake: make(chan struct{}, 1)}
}

func wake(ch chan struct{}) {
	select {
	case ch <- struct{}{}:
	default:
	}
}

type Net struct {
	mu        sync.Mutex
	listeners map[string]*Listener
	Conns     []*Conn // every endpoint ever created, in creation order
	Tap       bool
	Stats     map[string]int
	nextID    int
}

func New() *Net {
	return &Net{listeners: map[string]*Listener{}, Stats: map[string]int{}, Tap: true}
}

//go:norace
func (n *Net) stat(k string) { n.Stats[k]++ }

// Stat increments a counter (callable by actors).
//
//go:norace
func (n *Net) Stat(k string) {
	simrt.RaceOff()
	n.mu.Lock()
	n.Stats[k]++
	n.mu.Unlock()
	simrt.RaceOn()
}

type Conn struct {
	ID            int
	n             *Net
	in, out       *half
	peer          *Conn
	local, remote net.Addr
	closed        bool
	rdDL, wrDL    time.Time
	F             Faults
	Server        bool // accepted side
	// Ops counts Read/Write/Close calls by task id after MarkOwner (C17).
	owner      string
	ForeignOps int
	// refused counts Write calls that failed because the peer had already closed or reset.
	refused int
}

// WritesRefused is the number of Write calls on c that failed because the peer was gone.
func (c *Conn) WritesRefused() (n int) { c.snapshot(func() { n = c.refused }); return }

func (c *Conn) SimOrder() uint64 { return uint64(c.ID) }

type timeoutErr struct{}

func (timeoutErr) Error() string   { return "i/o timeout" }
func (timeoutErr) Timeout() bool   { return true }
func (timeoutErr) Temporary() bool { return true }
func (timeoutErr) Is(err error) bool {
	return err == os.ErrDeadlineExceeded
}

func (c *Conn) opErr(op string, err error) error {
	return &net.OpError{Op: op, Net: "tcp", Source: c.local, Addr: c.remote, Err: err}
}

var errReset = os.NewSyscallError("read", syscall.ECONNRESET)
var errPipe = os.NewSyscallError("write", syscall.EPIPE)

// Pair creates a connected pair (client endpoint first).
//
//go:norace
func (n *Net) pair(caddr, saddr net.Addr) (*Conn, *Conn) {
	a2b, b2a := newHalf(), newHalf()
	n.nextID++
	c := &Conn{ID: n.nextID, n: n, in: b2a, out: a2b, local: caddr, remote: saddr}
	n.nextID++
	s := &Conn{ID: n.nextID, n: n, in: a2b, out: b2a, local: saddr, remote: caddr, Server: true}
	c.peer, s.peer = s, c
	n.Conns = append(n.Conns, c, s)
	return c, s
}

// Pipe returns a connected pair without a listener.
//
//go:norace
func (n *Net) Pipe(caddr, saddr net.Addr) (*Conn, *Conn) {
	simrt.RaceOff()
	n.mu.Lock()
	c, s := n.pair(caddr, saddr)
	n.mu.Unlock()
	simrt.RaceOn()
	return c, s
}

//go:norace
func (c *Conn) deliver(h *half, now time.Time) {
	for len(h.inflight) > 0 && !h.inflight[0].at.After(now) {
		h.buf = append(h.buf, h.inflight[0].b...)
		h.pending -= len(h.inflight[0].b)
		h.inflight = h.inflight[1:]
	}
}

// tryRead returns done=false and a wait duration (<0: forever) when it must block.
//
//go:norace
func (c *Conn) tryRead(p []byte) (n int, err error, wait time.Duration, done bool) {
	simrt.RaceOff()
	defer simrt.RaceOn()
	c.n.mu.Lock()
	defer c.n.mu.Unlock()
	c.noteOp()
	if c.closed {
		return 0, c.opErr("read", net.ErrClosed), 0, true
	}
	now := time.Now()
	h := c.in
	if !c.rdDL.IsZero() && !c.rdDL.After(now) {
		return 0, c.opErr("read", timeoutErr{}), 0, true
	}
	if c.F.FailReadAt > 0 && h.read >= c.F.FailReadAt {
		c.n.stat("fault.read_reset")
		return 0, c.opErr("read", errReset), 0, true
	}
	c.deliver(h, now)
	if len(h.buf) > 0 {
		if len(p) == 0 {
			return 0, nil, 0, true
		}
		k := len(h.buf)
		if k > len(p) {
			k = len(p)
		}
		if c.F.Short != nil && k > 1 {
			if d := c.F.Short.Draw(4); d == 1 {
				k = 1 + c.F.Short.Draw(k)
				c.n.stat("fault.short_read")
			} else if d == 2 {
				k = 1
				c.n.stat("fault.short_read")
			}
		}
		if c.F.FailReadAt > 0 && h.read+int64(k) > c.F.FailReadAt {
			k = int(c.F.FailReadAt - h.read)
		}
		copy(p, h.buf[:k])
		h.buf = h.buf[k:]
		h.read += int64(k)
		wake(h.wrWake)
		return k, nil, 0, true
	}
	if h.rst {
		return 0, c.opErr("read", errReset), 0, true
	}
	if h.fin && len(h.inflight) == 0 {
		return 0, io.EOF, 0, true
	}
	wait = -1
	if len(h.inflight) > 0 {
		wait = h.inflight[0].at.Sub(now)
	}
	if !c.rdDL.IsZero() {
		if d := c.rdDL.Sub(now); wait < 0 || d < wait {
			wait = d
		}
	}
	return 0, nil, wait, false
}

func block(ch chan struct{}, wait time.Duration) {
	if wait < 0 {
		<-ch
		return
	}
	tm := time.NewTimer(wait)
	select {
	case <-ch:
	case <-tm.C:
	}
	tm.Stop()
}

func (c *Conn) Read(p []byte) (int, error) {
	simrt.Gate("net.read", nil)
	for {
		n, err, wait, done := c.tryRead(p)
		if done {
			return n, err
		}
		block(c.in.rdWake, wait)
	}
}

//go:norace
func (c *Conn) tryWrite(p []byte) (n int, err error, wait time.Duration, done bool) {
	simrt.RaceOff()
	defer simrt.RaceOn()
	c.n.mu.Lock()
	defer c.n.mu.Unlock()
	c.noteOp()
	if c.closed {
		return 0, c.opErr("write", net.ErrClosed), 0, true
	}
	now := time.Now()
	h := c.out
	if !c.wrDL.IsZero() && !c.wrDL.After(now) {
		return 0, c.opErr("write", timeoutErr{}), 0, true
	}
	if h.rst || c.peer.closed {
		c.refused++
		return 0, c.opErr("write", errPipe), 0, true
	}
	if len(p) == 0 {
		return 0, nil, 0, true
	}
	win := c.F.Window
	if win <= 0 {
		win = 1 << 20
	}
	c.deliver(h, now)
	space := win - len(h.buf) - h.pending
	if space <= 0 {
		wait = -1
		if len(h.inflight) > 0 {
			// delivery does not create space; only the reader does
		}
		if !c.wrDL.IsZero() {
			wait = c.wrDL.Sub(now)
		}
		c.n.stat("backpressure")
		return 0, nil, wait, false
	}
	k := len(p)
	if k > space {
		k = space
	}
	failed := false
	if c.F.FailWriteAt > 0 && h.total+int64(k) >= c.F.FailWriteAt {
		k = int(c.F.FailWriteAt - 1 - h.total)
		if k < 0 {
			k = 0
		}
		failed = true
	}
	data := p[:k]
	if c.n.Tap {
		h.tap = append(h.tap, data...)
	}
	off := 0
	for off < len(data) {
		sz := len(data) - off
		if c.F.Seg != nil && sz > 1 {
			switch c.F.Seg.Draw(4) {
			case 1:
				sz = 1 + c.F.Seg.Draw(sz)
				c.n.stat("fault.segment")
			case 2:
				sz = 1
				c.n.stat("fault.segment")
			}
		}
		at := now
		if c.F.Lat != nil {
			if d := latencies[c.F.Lat.Draw(len(latencies))]; d > 0 {
				at = now.Add(d)
				c.n.stat("fault.delay")
			}
		}
		if at.Before(h.lastAt) {
			at = h.lastAt
		}
		h.lastAt = at
		b := append([]byte(nil), data[off:off+sz]...)
		pos := h.total + int64(off)
		if c.F.BlackholeAt > 0 && pos+int64(sz) >= c.F.BlackholeAt {
			keep := int(c.F.BlackholeAt - 1 - pos)
			if keep < 0 {
				keep = 0
			}
			b = b[:keep]
			c.n.stat("fault.blackhole")
		}
		if len(b) > 0 {
			if at.After(now) || len(h.inflight) > 0 {
				h.inflight = append(h.inflight, seg{b, at})
				h.pending += len(b)
			} else {
				h.buf = append(h.buf, b...)
			}
		}
		off += sz
	}
	h.total += int64(k)
	wake(h.rdWake)
	if failed {
		h.rst = true
		c.in.rst = true
		wake(c.in.rdWake)
		c.n.stat("fault.write_reset")
		return k, c.opErr("write", errPipe), 0, true
	}
	return k, nil, 0, true
}

func (c *Conn) Write(p []byte) (int, error) {
	simrt.Gate("net.write", nil)
	total := 0
	for {
		n, err, wait, done := c.tryWrite(p[total:])
		total += n
		if done {
			if err != nil || total == len(p) {
				return total, err
			}
			continue
		}
		block(c.out.wrWake, wait)
	}
}

//go:norace
func (c *Conn) noteOp() {
	if c.owner != "" {
		if id := simrt.CurID(); id != "" && id != c.owner {
			c.ForeignOps++
		}
	}
}

// MarkOwner makes the connection count operations issued by any task other
// than the caller (used by the hijack oracle).
//
//go:norace
func (c *Conn) MarkOwner() {
	simrt.RaceOff()
	c.n.mu.Lock()
	c.owner = simrt.CurID()
	c.n.mu.Unlock()
	simrt.RaceOn()
}

//go:norace
func (c *Conn) doClose(rst bool) error {
	simrt.RaceOff()
	defer simrt.RaceOn()
	c.n.mu.Lock()
	defer c.n.mu.Unlock()
	c.noteOp()
	if c.closed {
		return c.opErr("close", net.ErrClosed)
	}
	c.closed = true
	c.out.fin = true
	if rst {
		c.out.rst = true
		c.out.buf = nil
		c.out.inflight = nil
		c.out.pending = 0
	}
	wake(c.out.rdWake)
	wake(c.out.wrWake)
	wake(c.in.rdWake)
	wake(c.in.wrWake)
	if c.F.CloseErr && !rst {
		c.n.stat("fault.close_error")
		return c.opErr("close", syscall.ECONNRESET)
	}
	return nil
}

func (c *Conn) Close() error {
	simrt.Gate("net.close", nil)
	return c.doClose(false)
}

// Reset closes the connection abortively: the peer sees a reset, unread data is lost.
func (c *Conn) Reset() error {
	simrt.Gate("net.reset", nil)
	c.n.Stat("fault.rst")
	return c.doClose(true)
}

// CloseWrite half-closes: the peer reads EOF after the data already sent.
//
//go:norace
func (c *Conn) CloseWrite() error {
	simrt.Gate("net.closewrite", nil)
	simrt.RaceOff()
	c.n.mu.Lock()
	c.out.fin = true
	wake(c.out.rdWake)
	c.n.mu.Unlock()
	simrt.RaceOn()
	return nil
}

func (c *Conn) LocalAddr() net.Addr  { return c.local }
func (c *Conn) RemoteAddr() net.Addr { return c.remote }

//go:norace
func (c *Conn) setDL(r, w bool, t time.Time) error {
	simrt.RaceOff()
	defer simrt.RaceOn()
	c.n.mu.Lock()
	defer c.n.mu.Unlock()
	c.noteOp()
	if c.closed {
		return c.opErr("set", net.ErrClosed)
	}
	if r {
		c.rdDL = t
		wake(c.in.rdWake)
	}
	if w {
		c.wrDL = t
		wake(c.out.wrWake)
	}
	return nil
}

func (c *Conn) SetDeadline(t time.Time) error {
	simrt.Gate("net.setdl", nil)
	return c.setDL(true, true, t)
}
func (c *Conn) SetReadDeadline(t time.Time) error {
	simrt.Gate("net.setdl", nil)
	return c.setDL(true, false, t)
}
func (c *Conn) SetWriteDeadline(t time.Time) error {
	simrt.Gate("net.setdl", nil)
	return c.setDL(false, true, t)
}

// Observations for oracles (no gate; call from the driver's monitor or after quiescence).

//go:norace
func (c *Conn) snapshot(f func()) {
	simrt.RaceOff()
	c.n.mu.Lock()
	f()
	c.n.mu.Unlock()
	simrt.RaceOn()
}

// Sent returns a copy of every byte this endpoint has written so far.
func (c *Conn) Sent() (b []byte) {
	c.snapshot(func() { b = append([]byte(nil), c.out.tap...) })
	return
}

// SentLen is the number of bytes this endpoint has written.
func (c *Conn) SentLen() (n int64) { c.snapshot(func() { n = c.out.total }); return }

// RecvLen is the number of bytes this endpoint's Read calls have returned.
func (c *Conn) RecvLen() (n int64) { c.snapshot(func() { n = c.in.read }); return }

// Arrived is the number of bytes delivered to this endpoint (read or readable).
func (c *Conn) Arrived() (n int64) {
	c.snapshot(func() { n = c.in.read + int64(len(c.in.buf)) })
	return
}

// Closed reports whether this endpoint has been closed locally.
func (c *Conn) Closed() (b bool) { c.snapshot(func() { b = c.closed }); return }

// Peer returns the other endpoint.
func (c *Conn) Peer() *Conn { return c.peer }

// ---- listener ----

type Listener struct {
	n       *Net
	addr    net.Addr
	queue   []*Conn
	errs    []error
	closed  bool
	wakeCh  chan struct{}
	Accepts int
}

//go:norace
func (n *Net) Listen(addr *net.TCPAddr) *Listener {
	simrt.RaceOff()
	defer simrt.RaceOn()
	n.mu.Lock()
	defer n.mu.Unlock()
	l := &Listener{n: n, addr: addr, wakeCh: make(chan struct{}, 1)}
	n.listeners[addr.String()] = l
	return l
}

// InjectAcceptError makes the next Accept return err.
//
//go:norace
func (l *Listener) InjectAcceptError(err error) {
	simrt.RaceOff()
	l.n.mu.Lock()
	l.errs = append(l.errs, err)
	wake(l.wakeCh)
	l.n.mu.Unlock()
	simrt.RaceOn()
}

type AcceptTimeout struct{}

func (AcceptTimeout) Error() string   { return "accept tcp: i/o timeout" }
func (AcceptTimeout) Timeout() bool   { return true }
func (AcceptTimeout) Temporary() bool { return true }

//go:norace
func (l *Listener) tryAccept() (c *Conn, err error, done bool) {
	simrt.RaceOff()
	defer simrt.RaceOn()
	l.n.mu.Lock()
	defer l.n.mu.Unlock()
	if l.closed {
		return nil, &net.OpError{Op: "accept", Net: "tcp", Addr: l.addr, Err: net.ErrClosed}, true
	}
	if len(l.errs) > 0 {
		err = l.errs[0]
		l.errs = l.errs[1:]
		l.n.stat("fault.accept_error")
		return nil, err, true
	}
	if len(l.queue) > 0 {
		c = l.queue[0]
		l.queue = l.queue[1:]
		l.Accepts++
		return c, nil, true
	}
	return nil, nil, false
}

func (l *Listener) Accept() (net.Conn, error) {
	simrt.Gate("net.accept", nil)
	for {
		c, err, done := l.tryAccept()
		if done {
			if err != nil {
				return nil, err
			}
			return c, nil
		}
		<-l.wakeCh
	}
}

//go:norace
func (l *Listener) Close() error {
	simrt.Gate("net.lnclose", nil)
	simrt.RaceOff()
	defer simrt.RaceOn()
	l.n.mu.Lock()
	defer l.n.mu.Unlock()
	if l.closed {
		return &net.OpError{Op: "close", Net: "tcp", Addr: l.addr, Err: net.ErrClosed}
	}
	l.closed = true
	delete(l.n.listeners, l.addr.String())
	for _, c := range l.queue {
		// connections never accepted are reset
		c.closed = true
		c.out.fin, c.out.rst = true, true
		wake(c.out.rdWake)
	}
	l.queue = nil
	wake(l.wakeCh)
	return nil
}

func (l *Listener) Addr() net.Addr { return l.addr }

//go:norace
func (l *Listener) IsClosed() bool {
	simrt.RaceOff()
	l.n.mu.Lock()
	b := l.closed
	l.n.mu.Unlock()
	simrt.RaceOn()
	return b
}

var ErrRefused = os.NewSyscallError("connect", syscall.ECONNREFUSED)

// Dial connects from caddr to the listener at saddr ("ip:port").
//
//go:norace
func (n *Net) Dial(caddr *net.TCPAddr, saddr string) (*Conn, error) {
	simrt.Gate("net.dial", nil)
	c, err := n.dial(caddr, saddr)
	if err != nil {
		// a refusal costs a round trip: a caller that retries in a loop must
		// not be able to keep the simulated clock from advancing
		time.Sleep(time.Millisecond)
	}
	return c, err
}

//go:norace
func (n *Net) dial(caddr *net.TCPAddr, saddr string) (*Conn, error) {
	simrt.RaceOff()
	defer simrt.RaceOn()
	n.mu.Lock()
	defer n.mu.Unlock()
	l := n.listeners[saddr]
	if l == nil || l.closed {
		n.stat("dial.refused")
		return nil, &net.OpError{Op: "dial", Net: "tcp", Source: caddr, Addr: strAddr(saddr), Err: ErrRefused}
	}
	c, s := n.pair(caddr, l.addr)
	l.queue = append(l.queue, s)
	wake(l.wakeCh)
	return c, nil
}

type strAddr string

func (a strAddr) Network() string { return "tcp" }
func (a strAddr) String() string  { return string(a) }

// IsTimeout reports whether err is a deadline error.
func IsTimeout(err error) bool {
	var ne net.Error
	return errors.As(err, &ne) && ne.Timeout()
}
