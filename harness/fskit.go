package harness

import (
	"bytes"
	"compress/gzip"
	"fmt"
	"io"
	"io/fs"
	"net/http"
	"os"
	"path/filepath"
	"strconv"
	"strings"
	"sync"
	"time"

	"github.com/andybalholm/brotli"
	"github.com/klauspost/compress/zstd"
	"github.com/valyala/fasthttp"
	"verif/simrt"
	"verif/simrt/simfs"
	"verif/simrt/simnet"
)

// FS kit: a real directory tree in a per-run scratch directory, served by
// fasthttp.FS through the simfs-substituted os calls (default filesystem) or
// through an instrumented fs.FS.

const fsSecret = "TOP-SECRET-OUTSIDE-ROOT"

type fsFixture struct {
	base, root, cache string
	files             map[string][]byte // relative to root
	mtime             time.Time
	mtimes            map[string]time.Time // files rewritten during the run
}

// mtimeOf is the current modification time of a served file.
func (fx *fsFixture) mtimeOf(rel string) time.Time {
	if t, ok := fx.mtimes[rel]; ok {
		return t
	}
	return fx.mtime
}

// rewrite replaces a served file's content; its modification time moves on by half an hour.
func (fx *fsFixture) rewrite(rel string, b []byte) {
	p := filepath.Join(fx.root, rel)
	t := fx.mtimeOf(rel).Add(30 * time.Minute)
	os.WriteFile(p, b, 0o644)
	os.Chtimes(p, t, t)
	if fx.mtimes == nil {
		fx.mtimes = map[string]time.Time{}
	}
	fx.mtimes[rel], fx.files[rel] = t, b
}

func fileBytes(name string, n int) []byte {
	b := make([]byte, n)
	h := 0
	for _, c := range name {
		h = h*31 + int(c)
	}
	for i := range b {
		b[i] = byte('a' + (i*13+h+i/97)%26)
		if i%64 == 63 {
			b[i] = '\n'
		}
	}
	return b
}

func newFSFixture(e *Env) *fsFixture {
	base := filepath.Join(os.TempDir(), fmt.Sprintf("fs-%d-%d", e.Seed, os.Getpid()))
	fx := &fsFixture{base: base, root: filepath.Join(base, "root"), cache: filepath.Join(base, "cache"), files: map[string][]byte{}}
	fx.mtime = simrt.Epoch.Add(-time.Hour).Truncate(time.Second)
	put := func(rel string, b []byte) {
		p := filepath.Join(base, rel)
		os.MkdirAll(filepath.Dir(p), 0o755)
		os.WriteFile(p, b, 0o644)
		os.Chtimes(p, fx.mtime, fx.mtime)
		if strings.HasPrefix(rel, "root/") {
			fx.files[strings.TrimPrefix(rel, "root/")] = b
		}
	}
	put("root/index.html", []byte("<html>index</html>"))
	put("root/a.txt", fileBytes("a.txt", 100))
	put("root/empty.txt", nil)
	put("root/one.txt", []byte("1"))
	put("root/k8191.bin", fileBytes("k8191", 8191))
	put("root/k8192.bin", fileBytes("k8192", 8192))
	put("root/k8193.bin", fileBytes("k8193", 8193))
	put("root/big.txt", fileBytes("big", 30000))
	put("root/dir/sub.txt", fileBytes("sub", 300))
	put("root/dir/index.html", []byte("<html>dir index</html>"))
	put("root/x/y/z.txt", []byte("deep"))
	put("secret/passwd.txt", []byte(fsSecret))
	put("rootx/other.txt", []byte(fsSecret+"-rootx"))
	put("passwd.txt", []byte(fsSecret+"-base"))
	os.MkdirAll(fx.cache, 0o755)
	return fx
}

func (fx *fsFixture) cleanup() { os.RemoveAll(fx.base) }

// inside reports whether path is lexically inside dir.
func inside(path, dir string) bool {
	path, dir = filepath.Clean(path), filepath.Clean(dir)
	return path == dir || strings.HasPrefix(path, dir+string(filepath.Separator))
}

// recFS is an instrumented fs.FS over a real directory.
type recFS struct {
	dir   string
	mu    sync.Mutex
	names []string
	inner fs.FS
}

func newRecFS(dir string) *recFS { return &recFS{dir: dir, inner: os.DirFS(dir)} }

func (r *recFS) Open(name string) (fs.File, error) {
	r.mu.Lock()
	r.names = append(r.names, name)
	r.mu.Unlock()
	return r.inner.Open(name)
}

func decodeBody(enc string, b []byte) ([]byte, error) {
	switch enc {
	case "":
		return b, nil
	case "gzip":
		zr, err := gzip.NewReader(bytes.NewReader(b))
		if err != nil {
			return nil, err
		}
		return io.ReadAll(zr)
	case "br":
		return io.ReadAll(brotli.NewReader(bytes.NewReader(b)))
	case "zstd":
		zr, err := zstd.NewReader(bytes.NewReader(b))
		if err != nil {
			return nil, err
		}
		defer zr.Close()
		return io.ReadAll(zr)
	}
	return nil, fmt.Errorf("unknown content-encoding %q", enc)
}

// ---------------- C23 ----------------

type c23Req struct {
	Target string `json:"target"`
	Host   string `json:"host"`
	AE     string `json:"accept_encoding"`
}

type c23Plan struct {
	Mode      string   `json:"mode"` // os | fsfs
	Rewriter  string   `json:"rewriter"`
	N         int      `json:"rewriter_arg"`
	Compress  bool     `json:"compress"`
	CacheRoot bool     `json:"compress_root"`
	Reqs      []c23Req `json:"reqs"`
	Concurrent bool    `json:"concurrent"`
	DiskFaults bool    `json:"disk_faults"`
}

func init() {
	scenarios["C23"] = scenC23
	scenarios["C24"] = scenC24
	scenarios["C25"] = scenC25
}

var c23Segs = []string{"", ".", "..", "%2e", "%2e%2e", "%2E%2E", "..%2f", "%2f", "%5c", "\\", "..\\", "x..", "ab..", "aaaaaaa..", "..x", "%00", "%25", "%2500", "a%2500.txt", "%25%30%30", "%252f", "%252e%252e", "secret", "root", "rootx", "a.txt", "dir", "passwd.txt", "sub.txt", "other.txt", "index.html", "x", "y", "z.txt", "...", ".. ", "%2e%2e%2f", "cache"}

func scenC23(e *Env) func() {
	p := &c23Plan{Mode: Pick(e, "os", "os", "fsfs"), Rewriter: Pick(e, "none", "none", "vhost", "slashes", "prefix"), Compress: e.Chance(40), CacheRoot: e.Chance(60), Concurrent: e.Chance(40), DiskFaults: e.Chance(15)}
	p.N = e.Int(4)
	if p.Rewriter == "prefix" {
		p.N = e.Int(8)
	}
	n := e.Range(3, 12)
	for i := 0; i < n; i++ {
		var segs []string
		k := e.Range(1, 6)
		for j := 0; j < k; j++ {
			segs = append(segs, c23Segs[e.Int(len(c23Segs))])
		}
		t := "/" + strings.Join(segs, Pick(e, "/", "/", "/", "//", "%2f", "\\"))
		if e.Chance(5) {
			t += strings.Repeat("/..", 40)
		}
		if e.Chance(10) {
			t += "?q=../../secret/passwd.txt"
		}
		p.Reqs = append(p.Reqs, c23Req{Target: t, Host: Pick(e, "x", "x", "..", "a/b", "../secret", "..%2fsecret", ".", "example.com", "secret", "/", "%2e%2e"), AE: Pick(e, "", "", "gzip", "br", "zstd")})
	}
	e.Sample = p
	return func() { c23Run(e, p) }
}

func c23Run(e *Env, p *c23Plan) {
	fx := newFSFixture(e)
	defer fx.cleanup()
	f := &fasthttp.FS{Compress: p.Compress, CompressBrotli: p.Compress, CompressZstd: p.Compress, GenerateIndexPages: e.Seed%3 == 0, IndexNames: []string{"index.html"}, AcceptByteRange: true, CacheDuration: time.Second}
	var rfs *recFS
	if p.Mode == "fsfs" {
		rfs = newRecFS(fx.root)
		f.FS = rfs
		f.Root = ""
		f.AllowEmptyRoot = true
	} else {
		f.Root = fx.root
		if p.CacheRoot {
			f.CompressRoot = fx.cache
		}
	}
	switch p.Rewriter {
	case "vhost":
		f.PathRewrite = fasthttp.NewVHostPathRewriter(p.N)
	case "slashes":
		f.PathRewrite = fasthttp.NewPathSlashesStripper(p.N)
	case "prefix":
		f.PathRewrite = fasthttp.NewPathPrefixStripper(p.N)
	}
	if p.DiskFaults {
		n := 0
		simfs.FailRead = func(h *simfs.Handle, off int64) error {
			n++
			if n%7 == 3 {
				e.Fault("io_error")
				return simfs.EIO
			}
			return nil
		}
		simfs.FailCreate = func(dir string) error {
			e.Fault("eacces")
			return simfs.EACCES
		}
	}
	var mu sync.Mutex
	rewritten := map[string]string{}
	wrapped := f.PathRewrite != nil
	if wrapped {
		// observe the rewriter's result without calling it a second time (the
		// vhost rewriter changes the request URI)
		inner := f.PathRewrite
		f.PathRewrite = func(ctx *fasthttp.RequestCtx) []byte {
			key := string(ctx.RequestURI()) + "|" + string(ctx.Host())
			out := inner(ctx)
			rw := string(out)
			mu.Lock()
			rewritten[key] = rw
			mu.Unlock()
			return out
		}
	}
	h := f.NewRequestHandler()
	s := &fasthttp.Server{IdleTimeout: time.Minute}
	k := NewServerKit(e, s)
	k.Handle = func(ctx *fasthttp.RequestCtx, inv *Inv) {
		// never hold a harness lock across fasthttp calls: they may reach a scheduler gate
		if !wrapped {
			rw := string(ctx.Path())
			key := inv.URI + "|" + string(ctx.Host())
			mu.Lock()
			rewritten[key] = rw
			mu.Unlock()
		}
		h(ctx)
	}
	k.Start()
	type out struct {
		r    c23Req
		resp *Resp
	}
	var outs []out
	one := func(r c23Req) {
		sc, err := k.NewSeqClient("10.0.23.1", simnet.Faults{})
		if err != nil {
			return
		}
		defer sc.C.Close()
		ae := ""
		if r.AE != "" {
			ae = "Accept-Encoding: " + r.AE + "\r\n"
		}
		sc.Send([]byte(fmt.Sprintf("GET %s HTTP/1.1\r\nHost: %s\r\n%s\r\n", r.Target, r.Host, ae)), nil)
		resp, _, err := sc.ReadResp("GET", time.Minute)
		if err != nil && resp == nil {
			return
		}
		mu.Lock()
		outs = append(outs, out{r, resp})
		mu.Unlock()
	}
	if p.Concurrent {
		var fsx []func()
		for _, r := range p.Reqs {
			r := r
			fsx = append(fsx, func() { one(r) })
		}
		WaitAll(time.Hour, "req", fsx...)
	} else {
		for _, r := range p.Reqs {
			one(r)
		}
	}
	e.Nontrivial = true
	// 1. every path handed to the filesystem is inside Root / CompressRoot
	ops, _ := simfs.Snapshot()
	for _, op := range ops {
		e.Ob(1)
		okDirs := []string{fx.root}
		if p.CacheRoot {
			okDirs = append(okDirs, fx.cache)
		}
		ok := false
		for _, d := range okDirs {
			if inside(op.Path, d) {
				ok = true
			}
		}
		if p.Mode == "os" && !ok {
			e.Violation("outside-root/"+op.Kind+"/"+p.Rewriter, "the FS handler called %s on %q, outside Root %q (rewriter %s/%d, requests %+v)", op.Kind, op.Path, fx.root, p.Rewriter, p.N, p.Reqs)
			return
		}
		if strings.ContainsRune(op.Path, 0) {
			e.Violation("nul-reached-fs", "a path with a NUL byte reached the filesystem: %q", op.Path)
			return
		}
	}
	if rfs != nil {
		rfs.mu.Lock()
		names := append([]string(nil), rfs.names...)
		rfs.mu.Unlock()
		for _, n := range names {
			e.Ob(1)
			bad := strings.HasPrefix(n, "/")
			for _, seg := range strings.Split(n, "/") {
				if seg == ".." {
					bad = true
				}
			}
			if bad {
				e.Violation("fsfs-invalid-path/"+p.Rewriter, "FS over fs.FS called Open(%q): a rooted path or one with a '..' element leaves the fs.FS", n)
				return
			}
		}
	}
	// 2. nothing from outside the root is ever served; NUL and post-rewrite '..' are rejected
	for _, o := range outs {
		e.Ob(1)
		if o.resp == nil {
			continue
		}
		body, _ := decodeBody(o.resp.Header.Get("Content-Encoding"), o.resp.Body)
		if bytes.Contains(body, []byte(fsSecret)) || bytes.Contains(o.resp.Body, []byte(fsSecret)) {
			e.Violation("secret-served/"+p.Rewriter, "GET %q (Host %q) returned the content of a file outside Root (status %d)", o.r.Target, o.r.Host, o.resp.Status)
			return
		}
		mu.Lock()
		rw, seen := rewritten[o.r.Target+"|"+o.r.Host]
		mu.Unlock()
		if seen && o.resp.Status == 200 {
			if strings.ContainsRune(rw, 0) {
				e.Violation("nul-accepted", "GET %q: path %q contains a NUL byte and was served with 200", o.r.Target, rw)
				return
			}
			for _, seg := range strings.Split(rw, "/") {
				if seg == ".." {
					e.Violation("dotdot-accepted/"+p.Rewriter, "GET %q (Host %q): rewritten path %q has a '..' segment and was served with 200", o.r.Target, o.r.Host, rw)
					return
				}
			}
		}
	}
	simfs.FailRead, simfs.FailCreate = nil, nil
	k.Shutdown(time.Minute)
	_ = http.StatusOK
	_ = strconv.Itoa
}
