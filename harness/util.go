package harness

import (
	"time"

	"verif/simrt"
)

func simrtEpoch() time.Time { return simrt.Epoch }

// Now is the simulated time since the start of the run.
func Now() time.Duration { return time.Since(simrt.Epoch) }
