package harness

import (
	"bufio"
	"fmt"
	"io"
	"net"
	"net/http"
	"strings"
	"sync"
	"time"

	"verif/simrt"
	"verif/simrt/simnet"
)

// FakeServer is a scripted HTTP server actor (harness code, parses requests
// with net/http) used as the peer of the fasthttp clients under test.

type srvAction struct {
	Status    int    `json:"status"`
	BodyLen   int    `json:"body_len"`
	Framing   string `json:"framing"` // cl | chunked | close
	DelayMs   int    `json:"delay_ms"`
	TailMs    int    `json:"tail_delay_ms"` // pause before the last TailLen bytes
	TailLen   int    `json:"tail_len"`
	CloseAt   int    `json:"close_after_bytes"` // >0: reset after that many response bytes
	ConnClose bool   `json:"conn_close"`
	Interim   bool   `json:"interim_100"`
	Location  string `json:"location,omitempty"`
	FakeTail  bool   `json:"fake_tail"` // the tail is a well-formed response tagged with another id
	EOFBefore bool   `json:"eof_before_response"`
	Stall     bool   `json:"stall_forever"`
}

type srvReqLog struct {
	ID      string
	Conn    int
	Idx     int
	Method  string
	Path    string
	Host    string
	Header  http.Header
	BodyLen int
	At      time.Duration
	Step    int
}

type FakeServer struct {
	e      *Env
	Addr   *net.TCPAddr
	Ln     *simnet.Listener
	Plan   func(id string, req *http.Request) srvAction
	mu     sync.Mutex
	Log    []srvReqLog
	Conns  []*simnet.Conn
	perConn []int
	Wrap   func(c net.Conn) net.Conn // e.g. TLS server
}

func NewFakeServer(e *Env, ip string, port int) *FakeServer {
	fs := &FakeServer{e: e, Addr: tcpAddr(ip, port)}
	fs.Ln = e.Net.Listen(fs.Addr)
	return fs
}

// ExpectedBody is the body the server produces for id with action a.
func ExpectedBody(id string, a srvAction) []byte {
	head := "id=" + id + ";"
	n := a.BodyLen
	if n < len(head) {
		n = len(head)
	}
	b := make([]byte, 0, n)
	b = append(b, head...)
	tail := a.TailLen
	if tail > n-len(head) {
		tail = n - len(head)
	}
	fill := n - len(head) - tail
	for i := 0; i < fill; i++ {
		b = append(b, byte('a'+i%26))
	}
	if tail > 0 {
		if a.FakeTail {
			b = append(b, fakeResponse(tail)...)
		} else {
			for i := 0; i < tail; i++ {
				b = append(b, byte('A'+i%26))
			}
		}
	}
	return b
}

// fakeResponse returns exactly n bytes that form a complete response tagged
// with the id "smuggled" (or filler when n is too small).
func fakeResponse(n int) []byte {
	const head = "HTTP/1.1 200 OK\r\nX-Id: smuggled\r\nContent-Length: "
	for pad := 0; pad < n; pad++ {
		body := "id=smuggled;" + strings.Repeat("z", pad)
		s := fmt.Sprintf("%s%d\r\n\r\n%s", head, len(body), body)
		if len(s) == n {
			return []byte(s)
		}
		if len(s) > n {
			break
		}
	}
	return []byte(strings.Repeat("Z", n))
}

func (fs *FakeServer) Start() {
	Go("fake-server", func() {
		for {
			c, err := fs.Ln.Accept()
			if err != nil {
				return
			}
			sc := c.(*simnet.Conn)
			fs.mu.Lock()
			ci := len(fs.Conns)
			fs.Conns = append(fs.Conns, sc)
			fs.perConn = append(fs.perConn, 0)
			fs.mu.Unlock()
			var nc net.Conn = c
			if fs.Wrap != nil {
				nc = fs.Wrap(c)
			}
			Go("fake-conn", func() { fs.serve(ci, nc) })
		}
	})
}

func (fs *FakeServer) serve(ci int, c net.Conn) {
	defer c.Close()
	br := bufio.NewReader(c)
	for idx := 0; ; idx++ {
		c.SetReadDeadline(time.Now().Add(30 * time.Minute))
		req, err := http.ReadRequest(br)
		if err != nil {
			return
		}
		body, _ := io.ReadAll(req.Body)
		id := req.URL.Query().Get("id")
		fs.mu.Lock()
		fs.perConn[ci]++
		fs.Log = append(fs.Log, srvReqLog{ID: id, Conn: ci, Idx: idx, Method: req.Method, Path: req.URL.Path, Host: req.Host, Header: req.Header, BodyLen: len(body), At: Now(), Step: simrt.Step()})
		fs.mu.Unlock()
		a := fs.Plan(id, req)
		if a.Stall {
			time.Sleep(20 * time.Minute)
			return
		}
		if a.EOFBefore {
			return
		}
		if a.DelayMs > 0 {
			time.Sleep(time.Duration(a.DelayMs) * time.Millisecond)
		}
		if a.Status == 0 {
			a.Status = 200
		}
		var out []byte
		if a.Interim {
			out = append(out, "HTTP/1.1 100 Continue\r\n\r\n"...)
		}
		b := ExpectedBody(id, a)
		if req.Method == "HEAD" {
			b = nil
		}
		hdr := fmt.Sprintf("HTTP/1.1 %d %s\r\nX-Id: %s\r\n", a.Status, http.StatusText(a.Status), id)
		if a.Location != "" {
			hdr += "Location: " + a.Location + "\r\n"
		}
		if a.ConnClose || a.Framing == "close" {
			hdr += "Connection: close\r\n"
		}
		var payload []byte
		switch a.Framing {
		case "chunked":
			hdr += "Transfer-Encoding: chunked\r\n\r\n"
			half := len(b) / 2
			if half > 0 {
				payload = append(payload, fmt.Sprintf("%x\r\n", half)...)
				payload = append(payload, b[:half]...)
				payload = append(payload, "\r\n"...)
			}
			if len(b)-half > 0 {
				payload = append(payload, fmt.Sprintf("%x\r\n", len(b)-half)...)
				payload = append(payload, b[half:]...)
				payload = append(payload, "\r\n"...)
			}
			payload = append(payload, "0\r\n\r\n"...)
		case "close":
			hdr += "\r\n"
			payload = b
		default:
			hdr += fmt.Sprintf("Content-Length: %d\r\n\r\n", len(ExpectedBody(id, a)))
			payload = b
		}
		if req.Method == "HEAD" {
			payload = nil // the head only: not even a chunked terminator
		}
		out = append(out, hdr...)
		out = append(out, payload...)
		// split point for the delayed tail
		cut := len(out)
		if a.TailMs > 0 && a.TailLen > 0 && a.Framing != "chunked" && len(payload) >= a.TailLen {
			cut = len(out) - a.TailLen
		}
		if a.TailMs > 0 && a.TailLen > 0 && a.Framing == "chunked" && len(b) >= 2*a.TailLen+2 && req.Method != "HEAD" {
			// the delayed part starts exactly at the tail of the last chunk's data (followed by the chunked terminator)
			cut = len(out) - a.TailLen - len("\r\n0\r\n\r\n")
		}
		first := out[:cut]
		if a.CloseAt > 0 && a.CloseAt < len(out) {
			if a.CloseAt < len(first) {
				first = first[:a.CloseAt]
			}
			c.Write(first)
			if a.CloseAt > len(first) {
				time.Sleep(time.Duration(a.TailMs) * time.Millisecond)
				c.Write(out[cut:a.CloseAt])
			}
			if sc, ok := c.(*simnet.Conn); ok {
				sc.Reset()
			}
			return
		}
		if _, err := c.Write(first); err != nil {
			return
		}
		if cut < len(out) {
			time.Sleep(time.Duration(a.TailMs) * time.Millisecond)
			if _, err := c.Write(out[cut:]); err != nil {
				return
			}
		}
		if a.ConnClose || a.Framing == "close" {
			return
		}
	}
}

// Requests returns the log entries for id.
func (fs *FakeServer) Requests(id string) []srvReqLog {
	fs.mu.Lock()
	defer fs.mu.Unlock()
	var out []srvReqLog
	for _, l := range fs.Log {
		if l.ID == id {
			out = append(out, l)
		}
	}
	return out
}

func (fs *FakeServer) AllRequests() []srvReqLog {
	fs.mu.Lock()
	defer fs.mu.Unlock()
	return append([]srvReqLog(nil), fs.Log...)
}

// Dialer returns a fasthttp Dial func that connects to the simulated network
// from ip, counting live connections per target.
type DialStats struct {
	mu     sync.Mutex
	Dials  int
	Live   map[string]int
	Peak   map[string]int
	port   int
	Conns  []*simnet.Conn
}

func (e *Env) Dialer(ip string, st *DialStats) func(addr string) (net.Conn, error) {
	if st.Live == nil {
		st.Live = map[string]int{}
		st.Peak = map[string]int{}
		st.port = 30000
	}
	return func(addr string) (net.Conn, error) {
		st.mu.Lock()
		st.port++
		port := st.port
		st.Dials++
		st.mu.Unlock()
		c, err := e.Net.Dial(tcpAddr(ip, port), addr)
		if err != nil {
			return nil, err
		}
		st.mu.Lock()
		st.Conns = append(st.Conns, c)
		st.mu.Unlock()
		return c, nil
	}
}
