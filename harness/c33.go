package harness

import (
	"errors"
	"io"
	"net"
	"time"

	"github.com/valyala/fasthttp/fasthttputil"
	"verif/simrt"
)

// C33: PipeConns behave like a reliable byte stream; InmemoryListener pairs
// every successful Dial with exactly one Accept; nothing succeeds after Close.

type c33Dir struct {
	Writes    []int `json:"writes"`     // sizes
	WriteDLms []int `json:"write_dl"`   // per write: 0 none, else deadline in ms
	ReadBufs  []int `json:"read_bufs"`  // cycled
	ReadDLms  int   `json:"read_dl_ms"` // 0 none
	CloseAt   int   `json:"close_at"`   // writer closes its end after this many writes (-1 never)
	ReaderLag int   `json:"reader_lag_ms"`
}

type c33Plan struct {
	Mode    string   `json:"mode"` // pipe | listener
	Dirs    [2]c33Dir `json:"dirs"`
	Dialers int      `json:"dialers"`
	Accepts int      `json:"acceptors"`
	CloseMs int      `json:"close_after_ms"` // -1: close only at the end
}

func pat(dir int, i int64) byte { return byte((i*7 + int64(dir)*131 + i/251) & 0xff) }

func init() { scenarios["C33"] = scenC33 }

func scenC33(e *Env) func() {
	p := &c33Plan{Mode: Pick(e, "pipe", "pipe", "listener")}
	if p.Mode == "pipe" {
		for d := 0; d < 2; d++ {
			dir := &p.Dirs[d]
			n := e.Range(0, 12)
			for i := 0; i < n; i++ {
				dir.Writes = append(dir.Writes, Pick(e, 1, 1, 2, 7, 64, 300, 4096, 0, 5000, 5000, 70000, 140000))
				dir.WriteDLms = append(dir.WriteDLms, Pick(e, 0, 0, 0, 1, 50))
			}
			for i := 0; i < 3; i++ {
				dir.ReadBufs = append(dir.ReadBufs, Pick(e, 4096, 1, 2, 7, 64, 300, 10000))
			}
			dir.ReadDLms = Pick(e, 0, 0, 1, 20, 500)
			dir.CloseAt = -1
			if e.Chance(50) {
				dir.CloseAt = e.Range(0, n)
			}
			dir.ReaderLag = Pick(e, 0, 0, 1, 100)
		}
	} else {
		p.Dialers = e.Range(1, 4)
		p.Accepts = e.Range(1, 4)
		p.CloseMs = Pick(e, -1, 0, 1, 5)
	}
	e.Sample = p
	e.Cfg.Holds, e.Cfg.HoldMax = Pick(e, 0, 0, 2), 200*time.Millisecond
	if p.Mode == "pipe" {
		return func() { c33Pipe(e, p) }
	}
	return func() { c33Listener(e, p) }
}

func c33Pipe(e *Env, p *c33Plan) {
	pc := fasthttputil.NewPipeConns()
	conns := [2]net.Conn{pc.Conn1(), pc.Conn2()}
	type wrec struct {
		accepted     int64 // bytes whose Write returned nil
		beforeClose  int64 // bytes accepted by writes that returned before any Close was invoked
		afterCloseOK bool
	}
	var w [2]wrec
	var got [2][]byte
	var eof [2]bool
	var rerr [2]error
	closeInvoked, closeReturned := -1, -1 // steps
	closeCount := 0
	var fs []func()
	for d := 0; d < 2; d++ {
		d := d
		dir := p.Dirs[d]
		wc, rc := conns[d], conns[1-d]
		fs = append(fs, func() { // writer
			var pos int64
			for i, sz := range dir.Writes {
				if dir.CloseAt == i {
					break
				}
				buf := make([]byte, sz)
				for j := range buf {
					buf[j] = pat(d, pos+int64(j))
				}
				if dl := dir.WriteDLms[i]; dl > 0 {
					wc.SetWriteDeadline(time.Now().Add(time.Duration(dl) * time.Millisecond))
				} else {
					wc.SetWriteDeadline(time.Time{})
				}
				inv := simrt.Step()
				n, err := wc.Write(buf)
				// Write must not retain the slice: the caller is free to reuse it at once
				for j := range buf {
					buf[j] = '#'
				}
				if err != nil {
					if n != 0 && n != sz {
						e.Violation("stream/partial-write", "Write returned n=%d err=%v for %d bytes", n, err, sz)
					}
					if errors.Is(err, fasthttputil.ErrTimeout) || isTimeout(err) {
						e.Fault("write_deadline")
						continue // nothing was accepted; same position
					}
					break
				}
				if n != sz {
					e.Violation("stream/short-write", "Write returned n=%d err=nil for %d bytes", n, sz)
				}
				if closeReturned >= 0 && inv > closeReturned {
					e.Violation("close/write-after-close", "a Write invoked at step %d after Close returned at step %d succeeded", inv, closeReturned)
				}
				pos += int64(sz)
				w[d].accepted = pos
				if closeInvoked < 0 {
					w[d].beforeClose = pos
				}
			}
			if dir.CloseAt >= 0 {
				if closeInvoked < 0 {
					closeInvoked = simrt.Step()
				}
				wc.Close()
				closeCount++
				if closeReturned < 0 {
					closeReturned = simrt.Step()
				}
				e.Fault("close")
				// a write after Close must fail
				if n, err := wc.Write([]byte{1}); err == nil {
					e.Violation("close/write-after-close", "Write after Close returned n=%d err=nil", n)
				}
				e.Ob(1)
			}
		})
		fs = append(fs, func() { // reader
			if dir.ReaderLag > 0 {
				time.Sleep(time.Duration(dir.ReaderLag) * time.Millisecond)
			}
			timeouts, zeros := 0, 0
			for i := 0; ; i++ {
				buf := make([]byte, dir.ReadBufs[i%len(dir.ReadBufs)])
				if dir.ReadDLms > 0 && timeouts < 6 {
					rc.SetReadDeadline(time.Now().Add(time.Duration(dir.ReadDLms) * time.Millisecond))
				} else {
					rc.SetReadDeadline(time.Now().Add(30 * time.Second))
				}
				n, err := rc.Read(buf)
				got[d] = append(got[d], buf[:n]...)
				if err != nil {
					if err == io.EOF {
						eof[d] = true
						return
					}
					if isTimeout(err) {
						timeouts++
						e.Fault("read_deadline")
						if dir.ReadDLms > 0 && timeouts <= 6 {
							continue
						}
						return // 30 s of silence: writer is done and nobody closed
					}
					rerr[d] = err
					return
				}
				if n == 0 {
					// legal for an io.Reader (a zero-length Write travels as an empty buffer); bound it
					zeros++
					if zeros > len(dir.Writes)+2 {
						e.Violation("stream/zero-read", "Read returned 0,nil %d times with only %d writes", zeros, len(dir.Writes))
						return
					}
				}
			}
		})
	}
	if !WaitAll(10*time.Minute, "pipe", fs...) {
		e.Violation("liveness/pipe", "pipe tasks did not finish within 10 simulated minutes")
		return
	}
	for d := 0; d < 2; d++ {
		e.Ob(1)
		g := got[d]
		if int64(len(g)) > w[d].accepted {
			// bytes of a Write that failed (or is in flight) may not appear
			e.Violation("stream/extra", "dir %d: read %d bytes but only %d were accepted", d, len(g), w[d].accepted)
			continue
		}
		for i := range g {
			if g[i] != pat(d, int64(i)) {
				e.Violation("stream/corrupt", "dir %d: byte %d differs (lost, duplicated or reordered data)", d, i)
				break
			}
		}
		if rerr[d] != nil {
			e.Violation("stream/read-error", "dir %d: unexpected read error %v", d, rerr[d])
		}
		if eof[d] {
			e.Ob(1)
			if closeInvoked < 0 {
				e.Violation("close/eof-without-close", "dir %d: EOF although nobody closed", d)
			}
			if int64(len(g)) < w[d].beforeClose {
				e.Violation("close/lost-before-close", "dir %d: EOF after %d bytes although %d were written before Close", d, len(g), w[d].beforeClose)
			}
		} else if closeInvoked < 0 && int64(len(g)) != w[d].accepted {
			e.Violation("stream/lost", "dir %d: read %d of %d accepted bytes and then 30 s of silence", d, len(g), w[d].accepted)
		}
		if len(g) > 0 {
			e.Nontrivial = true
		}
	}
	pc.Close()
}

func isTimeout(err error) bool {
	var ne interface{ Timeout() bool }
	return errors.As(err, &ne) && ne.Timeout()
}

func c33Listener(e *Env, p *c33Plan) {
	ln := fasthttputil.NewInmemoryListener()
	type drec struct {
		inv, ret int
		ok       bool
		nonce    byte
	}
	dials := make([]drec, p.Dialers)
	var accepted []byte // nonces read by accepts
	type arec struct{ inv, ret int }
	var accOK []arec
	closeRet := -1
	var fs []func()
	for i := 0; i < p.Dialers; i++ {
		i := i
		fs = append(fs, func() {
			d := &dials[i]
			d.nonce = byte(i + 1)
			d.inv = simrt.Step()
			c, err := ln.Dial()
			d.ret = simrt.Step()
			if err != nil {
				return
			}
			d.ok = true
			c.Write([]byte{d.nonce})
			c.Close()
		})
	}
	for i := 0; i < p.Accepts; i++ {
		fs = append(fs, func() {
			for {
				inv := simrt.Step()
				c, err := ln.Accept()
				if err != nil {
					return
				}
				accOK = append(accOK, arec{inv, simrt.Step()})
				c.SetReadDeadline(time.Now().Add(time.Minute))
				b := make([]byte, 1)
				if n, _ := c.Read(b); n == 1 {
					accepted = append(accepted, b[0])
				} else {
					accepted = append(accepted, 0)
				}
				c.Close()
			}
		})
	}
	fs = append(fs, func() {
		if p.CloseMs < 0 {
			time.Sleep(time.Minute)
		} else {
			time.Sleep(time.Duration(p.CloseMs) * time.Millisecond)
		}
		ln.Close()
		closeRet = simrt.Step()
	})
	if !WaitAll(10*time.Minute, "ln", fs...) {
		e.Violation("liveness/listener", "Dial/Accept/Close tasks did not finish after Close")
		return
	}
	seen := map[byte]int{}
	for _, n := range accepted {
		seen[n]++
	}
	for _, d := range dials {
		e.Ob(1)
		if d.ok {
			e.Nontrivial = true
			if seen[d.nonce] != 1 {
				e.Violation("pairing", "successful Dial #%d was accepted %d times", d.nonce, seen[d.nonce])
			}
			if d.inv > closeRet {
				e.Violation("close/dial-after-close", "Dial invoked at step %d after Close returned at %d succeeded", d.inv, closeRet)
			}
		} else if seen[d.nonce] != 0 {
			e.Violation("pairing/failed-dial-accepted", "Dial #%d failed but its connection was accepted and readable", d.nonce)
		}
	}
	for _, a := range accOK {
		if a.inv > closeRet {
			e.Violation("close/accept-after-close", "Accept invoked at step %d after Close returned at %d succeeded", a.inv, closeRet)
		}
	}
	// after Close nothing succeeds
	if _, err := ln.Dial(); err == nil {
		e.Violation("close/dial-after-close", "Dial after Close succeeded")
	}
	if _, err := ln.Accept(); err == nil {
		e.Violation("close/accept-after-close", "Accept after Close succeeded")
	}
	e.Ob(2)
}
