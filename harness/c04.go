package harness

import (
	"bytes"
	"fmt"
	"io"
	"net/http"
	"time"

	"github.com/valyala/fasthttp"
)

// C04: client calls return their own response, never another request's bytes.

type c04Call struct {
	ID        string `json:"id"`
	Method    string `json:"method"`
	API       string `json:"api"` // do | timeout | deadline
	TimeoutMs int    `json:"timeout_ms"`
	Stream    bool   `json:"stream_response"`
	ReadBytes int    `json:"read_bytes"` // -1: to EOF
	Release   string `json:"stream_released_by,omitempty"` // close (CloseBodyStream) | release (ReleaseResponse only) | reset (Response.Reset)
	GapMs     int    `json:"gap_ms"`
	Act       srvAction `json:"server"`
}

type c04Plan struct {
	Client   string      `json:"client"` // host | client | pipeline
	MaxConns int         `json:"max_conns"`
	ReadBuf  int         `json:"read_buffer_size"`
	MaxBody  int         `json:"max_response_body_size"`
	WaitMs   int         `json:"max_conn_wait_timeout_ms"`
	Callers  [][]c04Call `json:"callers"`
}

func init() { scenarios["C04"] = scenC04 }

func genSrvAction(e *Env) srvAction {
	a := srvAction{Status: 200, BodyLen: Pick(e, 10, 10, 100, 1000, 4096, 5000, 9000), Framing: Pick(e, "cl", "cl", "cl", "chunked", "close")}
	a.DelayMs = Pick(e, 0, 0, 0, 5, 100, 1500)
	if e.Chance(40) {
		a.TailLen = Pick(e, 40, 60, 100, 300)
		a.TailMs = Pick(e, 1, 50, 500, 2000)
		a.FakeTail = e.Chance(70)
		if a.BodyLen < a.TailLen+20 {
			a.BodyLen = a.TailLen + 20
		}
	}
	if e.Chance(10) {
		a.CloseAt = Pick(e, 1, 30, 200, 3000)
	}
	a.ConnClose = e.Chance(15)
	a.Interim = e.Chance(8)
	return a
}

func scenC04(e *Env) func() {
	p := &c04Plan{Client: Pick(e, "host", "host", "client", "pipeline"), MaxConns: Pick(e, 1, 1, 2, 3), ReadBuf: Pick(e, 0, 0, 512, 8192), MaxBody: Pick(e, 0, 0, 0, 3000), WaitMs: Pick(e, 0, 0, 50, 3000, 60000)}
	ncallers := e.Range(1, 5)
	for ci := 0; ci < ncallers; ci++ {
		var calls []c04Call
		n := e.Range(1, 3)
		for i := 0; i < n; i++ {
			c := c04Call{ID: fmt.Sprintf("%d-%d", ci, i), Method: Pick(e, "GET", "GET", "POST", "HEAD"), API: Pick(e, "do", "timeout", "deadline"), TimeoutMs: Pick(e, 10, 200, 1000, 5000, 60000), GapMs: Pick(e, 0, 0, 1, 100, 3000), Act: genSrvAction(e)}
			if p.Client != "pipeline" && e.Chance(45) {
				c.Stream = true
				c.ReadBytes = Pick(e, -1, 0, 1, 5, 50, 500)
				c.Release = Pick(e, "close", "close", "release", "reset")
			}
			calls = append(calls, c)
		}
		p.Callers = append(p.Callers, calls)
	}
	if p.Client != "pipeline" && e.Chance(30) {
		// flavour: a streamed body closed early, its tail (a well-formed response)
		// arriving while the connection sits in the pool, then another call
		p.MaxConns = 1
		// the body must exceed what the client prefetches before Do returns:
		// MaxResponseBodySize when set, 8 KiB otherwise
		p.MaxBody = Pick(e, 100, 100, 0)
		first := c04Call{ID: "e-0", Method: Pick(e, "GET", "POST"), API: "do", Stream: true, ReadBytes: Pick(e, 0, 1, 5, 50), Release: Pick(e, "close", "release", "reset"),
			Act: srvAction{Status: 200, BodyLen: Pick(e, 400, 1000, 3000), Framing: Pick(e, "cl", "cl", "chunked"), TailLen: Pick(e, 80, 100, 120), TailMs: Pick(e, 100, 500), FakeTail: true}}
		if p.MaxBody == 0 {
			first.Act.BodyLen = Pick(e, 9000, 12000)
		}
		second := c04Call{ID: "e-1", Method: Pick(e, "GET", "POST"), API: Pick(e, "do", "timeout"), TimeoutMs: 5000, GapMs: Pick(e, 700, 2000),
			Act: srvAction{Status: 200, BodyLen: 20, Framing: "cl"}}
		p.Callers = [][]c04Call{{first, second}}
		if first.Act.Framing == "chunked" && e.Chance(70) {
			// a chunked streamed response read to its end comes first: whatever object
			// tracked that stream is recycled for the one that is closed early
			zero := c04Call{ID: "e-z", Method: "GET", API: "do", Stream: true, ReadBytes: -1, Release: Pick(e, "close", "release"),
				Act: srvAction{Status: 200, BodyLen: first.Act.BodyLen, Framing: "chunked"}}
			p.Callers = [][]c04Call{{zero, first, second}}
		}
	}
	e.Sample = p
	e.Cfg.Holds, e.Cfg.HoldMax = Pick(e, 0, 0, 2), 100*time.Millisecond
	e.Cfg.PoolAdversarial = e.Chance(30)
	return func() { c04Run(e, p) }
}

func c04Run(e *Env, p *c04Plan) {
	fs := NewFakeServer(e, "10.0.0.2", 80)
	acts := map[string]srvAction{}
	for _, cs := range p.Callers {
		for _, c := range cs {
			acts[c.ID] = c.Act
		}
	}
	fs.Plan = func(id string, req *http.Request) srvAction { return acts[id] }
	fs.Start()
	var ds DialStats
	dial := e.Dialer("10.0.4.1", &ds)
	type doer interface {
		Do(req *fasthttp.Request, resp *fasthttp.Response) error
		DoTimeout(req *fasthttp.Request, resp *fasthttp.Response, t time.Duration) error
		DoDeadline(req *fasthttp.Request, resp *fasthttp.Response, d time.Time) error
	}
	var cl doer
	switch p.Client {
	case "host":
		cl = &fasthttp.HostClient{Addr: "10.0.0.2:80", Dial: dial, MaxConns: p.MaxConns, ReadBufferSize: p.ReadBuf, MaxResponseBodySize: p.MaxBody, MaxIdleConnDuration: 5 * time.Second, ReadTimeout: 2 * time.Minute, MaxConnWaitTimeout: time.Duration(p.WaitMs) * time.Millisecond}
	case "client":
		cl = &fasthttp.Client{Dial: dial, MaxConnsPerHost: p.MaxConns, ReadBufferSize: p.ReadBuf, MaxResponseBodySize: p.MaxBody, MaxIdleConnDuration: 5 * time.Second, ReadTimeout: 2 * time.Minute, MaxConnWaitTimeout: time.Duration(p.WaitMs) * time.Millisecond}
	case "pipeline":
		cl = &fasthttp.PipelineClient{Addr: "10.0.0.2:80", Dial: dial, MaxConns: p.MaxConns, ReadBufferSize: p.ReadBuf, MaxPendingRequests: 4, ReadTimeout: 2 * time.Minute, Logger: nullLogger{}}
	}
	var fsx []func()
	for ci := range p.Callers {
		ci := ci
		fsx = append(fsx, func() {
			for _, c := range p.Callers[ci] {
				time.Sleep(time.Duration(c.GapMs) * time.Millisecond)
				c04Call1(e, cl, c)
				if e.Failed() {
					return
				}
			}
		})
	}
	if !WaitAll(3*time.Hour, "caller", fsx...) {
		e.Violation("liveness/callers", "client calls did not return within three simulated hours")
		return
	}
	fs.Ln.Close()
}

func c04Call1(e *Env, cl interface {
	Do(req *fasthttp.Request, resp *fasthttp.Response) error
	DoTimeout(req *fasthttp.Request, resp *fasthttp.Response, t time.Duration) error
	DoDeadline(req *fasthttp.Request, resp *fasthttp.Response, d time.Time) error
}, c c04Call) {
	req, resp := fasthttp.AcquireRequest(), fasthttp.AcquireResponse()
	req.SetRequestURI("http://10.0.0.2/echo?id=" + c.ID)
	req.Header.SetMethod(c.Method)
	if c.Method == "POST" {
		req.SetBodyString("payload-" + c.ID)
	}
	resp.StreamBody = c.Stream
	var err error
	switch c.API {
	case "do":
		err = cl.Do(req, resp)
	case "timeout":
		err = cl.DoTimeout(req, resp, time.Duration(c.TimeoutMs)*time.Millisecond)
	default:
		err = cl.DoDeadline(req, resp, time.Now().Add(time.Duration(c.TimeoutMs)*time.Millisecond))
	}
	e.Ob(1)
	if err != nil {
		e.Probe("call-error")
		return
	}
	e.Nontrivial = true
	ctxs := "buffered"
	if c.Stream {
		ctxs = "streamed"
	}
	if got := string(resp.Header.Peek("X-Id")); got != c.ID {
		e.Violation("crossed/header-"+ctxs, "call %s (%s %s) returned a response tagged X-Id=%q (status %d): another request's bytes", c.ID, c.Method, c.API, got, resp.StatusCode())
		return
	}
	want := ExpectedBody(c.ID, c.Act)
	if c.Method == "HEAD" {
		want = nil // a response to HEAD has no body, whatever its Content-Length says
	}
	if c.Stream && resp.BodyStream() != nil {
		var got []byte
		var rerr error
		if c.ReadBytes < 0 {
			got, rerr = io.ReadAll(resp.BodyStream())
		} else {
			buf := make([]byte, c.ReadBytes)
			n, er := io.ReadFull(resp.BodyStream(), buf)
			got = buf[:n]
			if er != nil && er != io.EOF && er != io.ErrUnexpectedEOF {
				rerr = er
			}
		}
		// the three documented ways of letting go of a streamed response
		switch c.Release {
		case "release":
			fasthttp.ReleaseResponse(resp)
		case "reset":
			resp.Reset()
		default:
			resp.CloseBodyStream()
		}
		if !bytes.HasPrefix(want, got) {
			e.Violation("crossed/body-"+ctxs, "call %s: streamed body bytes are not a prefix of the body the server produced for it (first difference at %d of %d read)", c.ID, firstDiff(got, want), len(got))
			return
		}
		if c.ReadBytes < 0 && rerr == nil && !bytes.Equal(got, want) {
			e.Violation("body-short-"+ctxs, "call %s: streamed body ended cleanly after %d of %d bytes", c.ID, len(got), len(want))
			return
		}
		if len(got) < len(want) {
			e.Probe("stream-closed-early")
		}
		return
	}
	got := resp.Body()
	if !bytes.Equal(got, want) {
		e.Violation("crossed/body-"+ctxs, "call %s: body has %d bytes, the server produced %d for it (first difference at %d): %q", c.ID, len(got), len(want), firstDiff(got, want), clip(string(got), 120))
	}
}
