#!/bin/bash
# mk_agent_task.sh <ID> [tag] : creates a scratch worktree /tmp/wt/<ID><tag> of /repo HEAD and the output
# directories /tmp/seeds/<ID><tag>/{1,2,3}; prints the prompt for a fresh sub-agent (property text only).
set -e
ID=$1; TAG=${2:-}
WT=/tmp/wt/$ID$TAG
OUT=/tmp/seeds/$ID$TAG
[ -d $WT ] || git -C /repo worktree add -q --detach $WT HEAD
mkdir -p $OUT/1 $OUT/2 $OUT/3
PROP=$(python3 - "$ID" <<'PY'
import json,sys
for l in open('/verif/properties.jsonl'):
    p=json.loads(l)
    if p['id']==sys.argv[1]:
        for k in ('added_in_round','source'): p.pop(k,None)
        print(json.dumps(p,indent=1))
PY
)
cat <<PROMPT
You are helping test a verification effort by playing the adversary. You work in a scratch git worktree of the Go library valyala/fasthttp at $WT . Work ONLY inside $WT and /tmp/seeds/$ID$TAG . Never read or write /repo or /verif. The sandbox is offline; before any go command run: export GOFLAGS=-mod=mod GOPROXY=off   (plain \`go\` then resolves to a cached go1.25 toolchain; nothing can be downloaded).

Here is a semantic property the library is expected to satisfy on this tree (it currently holds):

$PROP

Your task: produce THREE different, independent source changes to valyala/fasthttp (non-test .go files only), each of which makes the library violate this property, while
 (a) still compiling (go build ./... and go vet-free test compile),
 (b) still passing the existing test suite, unedited: \`go test -vet=off -count=1 . ./fasthttputil ./stackless ./fasthttpadaptor ./prefork\` (the root package takes a few minutes; do run it with the change applied — a change that fails an existing test is useless),
 (c) needing something specific in order to manifest: a particular interleaving or timing, a fault/close/timeout at a particular point, a multi-step sequence of operations, an unusual (but legal for the property) input or configuration, or two cooperating sites that each look fine alone. NOT something ordinary use would expose at once.
The changes should look realistic — what a refactor, an optimisation, a "simplification", a wrong boundary condition or a forgotten case would introduce — and be small (typically 1-15 changed lines). Make the three changes touch DIFFERENT mechanisms/aspects of the property (use the anchors above to find the relevant code, and read the code before choosing). Do not add build tags, do not touch tests, go.mod or documentation.

For each change k = 1, 2, 3 write into /tmp/seeds/$ID$TAG/<k>/ :
  patch.diff    — \`git diff\` against HEAD, must apply with \`git apply\` at the repository root of a clean checkout;
  demo_test.go  — a Go test file (package of the changed code, e.g. \`package fasthttp\`; test names starting with TestSeedDemo) that FAILS with the change applied and PASSES on the clean tree, as deterministically as you can (use fasthttputil.InmemoryListener / pipes, not real sockets; it may loop to hit an interleaving). It will be copied next to the package sources as zz_seed_demo_test.go and run with \`go test -vet=off -count=1 -run TestSeedDemo .\`;
  notes.md      — 5-15 lines: what the change is, which clause of the property it breaks, exactly what is needed for it to manifest, and the commands you ran with their outcome.
Never use `git stash` (stashes are shared between worktrees of this repository; other people work in sibling worktrees). After finishing each change reset the worktree with exactly \`git -C $WT checkout -- . && git -C $WT clean -fdq\` (ALWAYS pass -C $WT or use absolute paths: your shell's working directory is reset to another directory between commands, and a bare \`git checkout -- .\` there destroys someone else's work) so the next one starts from the clean tree; never commit. Confirm for each: demo passes on the clean tree, demo fails with the patch, the existing suite passes with the patch. If a candidate fails an existing test, pick another rather than editing tests.

Finish with a SHORT report (under 200 words): for each k one line saying what it changes and whether (demo-clean-pass, demo-patched-fail, suite-pass) were all confirmed.
PROMPT
