package harness

import (
	"bufio"
	"bytes"
	"errors"
	"fmt"
	"io"
	"net"
	"net/http"
	"strconv"
	"strings"
	"sync"
	"time"

	"github.com/valyala/fasthttp"
	"verif/simrt"
	"verif/simrt/simnet"
)

// Inv is what a handler invocation observed.
type Inv struct {
	Conn    string // client address "ip:port"
	Idx     int    // index on its connection
	Method  string
	URI     string
	Proto   string
	Body    []byte
	Headers [][2]string
	Step    int
	At      time.Duration
	Done    bool // handler returned
}

type nullLogger struct{}

func (nullLogger) Printf(string, ...any) {}

// ServerKit wraps a real fasthttp.Server on a simulated listener.
type ServerKit struct {
	e    *Env
	S    *fasthttp.Server
	Ln   *simnet.Listener
	Addr *net.TCPAddr

	mu       sync.Mutex
	invs     map[string][]*Inv
	order    []*Inv
	nextPort int
	ServeErr error
	served   chan struct{}
	// Handle, if set, runs inside the recording handler after the request has
	// been recorded.
	Handle func(ctx *fasthttp.RequestCtx, inv *Inv)
	// RecordBody=false leaves the request body untouched (C02).
	SkipHeaders bool
	SkipBody bool
}

func NewServerKit(e *Env, s *fasthttp.Server) *ServerKit {
	k := &ServerKit{e: e, S: s, Addr: tcpAddr("10.0.0.1", 80), invs: map[string][]*Inv{}, nextPort: 40000, served: make(chan struct{})}
	if s.Logger == nil {
		s.Logger = nullLogger{}
	}
	s.Handler = k.handler
	k.Ln = e.Net.Listen(k.Addr)
	return k
}

//go:norace
func (k *ServerKit) record(inv *Inv) {
	simrt.RaceOff()
	k.mu.Lock()
	inv.Idx = len(k.invs[inv.Conn])
	k.invs[inv.Conn] = append(k.invs[inv.Conn], inv)
	k.order = append(k.order, inv)
	k.mu.Unlock()
	simrt.RaceOn()
}

// Invs returns the invocations recorded for a client address.
//
//go:norace
func (k *ServerKit) Invs(conn string) []*Inv {
	simrt.RaceOff()
	k.mu.Lock()
	out := append([]*Inv(nil), k.invs[conn]...)
	k.mu.Unlock()
	simrt.RaceOn()
	return out
}

//go:norace
func (k *ServerKit) AllInvs() []*Inv {
	simrt.RaceOff()
	k.mu.Lock()
	out := append([]*Inv(nil), k.order...)
	k.mu.Unlock()
	simrt.RaceOn()
	return out
}

func (k *ServerKit) handler(ctx *fasthttp.RequestCtx) {
	inv := &Inv{Conn: ctx.RemoteAddr().String(), Method: string(ctx.Method()), URI: string(ctx.RequestURI()), Step: simrt.Step(), At: time.Since(simrt.Epoch)}
	if ctx.Request.Header.IsHTTP11() {
		inv.Proto = "HTTP/1.1"
	} else {
		inv.Proto = "HTTP/1.0"
	}
	if !k.SkipHeaders {
		// (iterating the header refreshes lazily maintained state such as the cookie
		// list: scenarios that look for stale state ask the kit not to touch it first)
		for kk, v := range ctx.Request.Header.All() {
			inv.Headers = append(inv.Headers, [2]string{string(kk), string(v)})
		}
	}
	if !k.SkipBody {
		inv.Body = append([]byte{}, ctx.Request.Body()...)
	}
	k.record(inv)
	ctx.Response.Header.Set("X-Inv", strconv.Itoa(inv.Idx))
	if k.Handle != nil {
		k.Handle(ctx, inv)
	} else {
		ctx.SetBodyString("ok " + strconv.Itoa(inv.Idx))
	}
	inv.Done = true
}

func (k *ServerKit) Start() {
	Go("serve", func() {
		k.ServeErr = k.S.Serve(k.Ln)
		close(k.served)
	})
}

// Dial opens a client connection from ip (unique port).
func (k *ServerKit) Dial(ip string) (*simnet.Conn, error) {
	k.mu.Lock()
	k.nextPort++
	port := k.nextPort
	k.mu.Unlock()
	return k.e.Net.Dial(tcpAddr(ip, port), k.Addr.String())
}

// Shutdown stops the server, bounded in simulated time.
func (k *ServerKit) Shutdown(timeout time.Duration) bool {
	done := make(chan struct{})
	Go("shutdown", func() {
		k.S.Shutdown()
		close(done)
	})
	tm := time.NewTimer(timeout)
	defer tm.Stop()
	select {
	case <-done:
		return true
	case <-tm.C:
		return false
	}
}

// ---- client side ----

// Resp is a response as an independent parser (net/http) sees it.
type Resp struct {
	Status  int
	// StatusLine is "<code> <reason phrase>" as net/http read it.
	StatusLine string
	Proto      string
	Header  http.Header
	Body    []byte
	BodyErr error
	Close   bool // Connection: close token present
	Raw     []byte
	Inv     int // X-Inv value or -1
}

// Exchange is the outcome of one scripted client connection.
type Exchange struct {
	Addr     string
	Resps    []*Resp
	Closed   bool  // server closed the connection (EOF or reset observed)
	Reset    bool  // ... with a reset
	Open     bool  // still open after the observation window
	ParseErr error // response stream stopped parsing
	Trailing []byte
	WriteErr error
	Sent     int
}

// Seg is one client write followed by a simulated pause.
type Seg struct {
	Data  []byte
	Pause time.Duration
}

func hasToken(vals []string, tok string) bool {
	for _, v := range vals {
		for _, t := range strings.Split(v, ",") {
			if strings.EqualFold(strings.TrimSpace(t), tok) {
				return true
			}
		}
	}
	return false
}

// readResponses parses responses from br until the stream ends or obs elapses
// without a byte. methodFor returns the request method for the k-th response
// given its X-Inv header value (or "" if unknown).
func readResponses(c net.Conn, obs time.Duration, methodFor func(k int, xinv int) string, ex *Exchange) {
	br := bufio.NewReaderSize(c, 1<<16)
	for {
		c.SetReadDeadline(time.Now().Add(obs))
		// wait for the head
		head, err := peekHead(br)
		if err != nil {
			if len(head) > 0 {
				ex.Trailing = append([]byte(nil), head...)
			}
			switch {
			case err == io.EOF:
				ex.Closed = true
			case isTimeout(err):
				ex.Open = true
			default:
				ex.Closed, ex.Reset = true, true
			}
			if len(head) > 0 && err != nil && !isTimeout(err) {
				ex.ParseErr = fmt.Errorf("stream ended inside a response head: %v", err)
			}
			return
		}
		xinv := -1
		for _, l := range strings.Split(string(head), "\n") {
			if strings.HasPrefix(strings.ToLower(l), "x-inv:") {
				xinv, _ = strconv.Atoi(strings.TrimSpace(l[6:]))
			}
		}
		method := methodFor(len(ex.Resps), xinv)
		if method == "" {
			method = "GET"
		}
		before := br.Buffered()
		_ = before
		resp, err := http.ReadResponse(br, &http.Request{Method: method})
		if err != nil {
			ex.ParseErr = err
			ex.Trailing = append([]byte(nil), head...)
			return
		}
		r := &Resp{Status: resp.StatusCode, Proto: resp.Proto, Header: resp.Header, Inv: xinv}
		r.Close = resp.Close || hasToken(resp.Header.Values("Connection"), "close")
		if r.Status >= 100 && r.Status < 200 && r.Status != 101 {
			// interim response: no body, another response follows
			ex.Resps = append(ex.Resps, r)
			continue
		}
		c.SetReadDeadline(time.Now().Add(obs))
		r.Body, r.BodyErr = io.ReadAll(resp.Body)
		resp.Body.Close()
		ex.Resps = append(ex.Resps, r)
		if r.BodyErr != nil {
			if isTimeout(r.BodyErr) {
				ex.Open = true
			} else {
				ex.Closed = true
			}
			return
		}
	}
}

// peekHead blocks until a complete response head (up to CRLFCRLF) is buffered
// and returns it without consuming it.
func peekHead(br *bufio.Reader) ([]byte, error) {
	n := 1
	for {
		b, err := br.Peek(n)
		if i := bytes.Index(b, []byte("\r\n\r\n")); i >= 0 {
			return b[:i+4], nil
		}
		if err != nil {
			return b, err
		}
		if len(b) > 60000 {
			return b, errors.New("response head too large")
		}
		if br.Buffered() > n {
			n = br.Buffered()
		} else {
			n++
		}
	}
}

// RunClient dials, writes segs (as one task) while reading responses (as
// another), and returns what it saw. closeAfter>=0 makes the client close its
// side after writing that many bytes in total.
func (k *ServerKit) RunClient(ip string, segs []Seg, obs time.Duration, f simnet.Faults, methodFor func(ex *Exchange, kth, xinv int) string) *Exchange {
	ex := &Exchange{}
	c, err := k.Dial(ip)
	if err != nil {
		ex.WriteErr = err
		return ex
	}
	c.F = f
	ex.Addr = c.LocalAddr().String()
	wdone := make(chan struct{})
	Go("client-writer", func() {
		defer close(wdone)
		for _, s := range segs {
			if len(s.Data) > 0 {
				n, err := c.Write(s.Data)
				ex.Sent += n
				if err != nil {
					ex.WriteErr = err
					return
				}
			}
			if s.Pause > 0 {
				time.Sleep(s.Pause)
			}
		}
	})
	readResponses(c, obs, func(kth, xinv int) string {
		if methodFor != nil {
			return methodFor(ex, kth, xinv)
		}
		if xinv >= 0 {
			if invs := k.Invs(ex.Addr); xinv < len(invs) {
				return invs[xinv].Method
			}
		}
		return ""
	}, ex)
	c.Close()
	<-wdone
	return ex
}

// SeqClient is a request-by-request scripted client on one connection.
type SeqClient struct {
	C  *simnet.Conn
	br *bufio.Reader
}

func (k *ServerKit) NewSeqClient(ip string, f simnet.Faults) (*SeqClient, error) {
	c, err := k.Dial(ip)
	if err != nil {
		return nil, err
	}
	c.F = f
	return &SeqClient{C: c, br: bufio.NewReaderSize(c, 1<<16)}, nil
}

// Send writes data in the given cut sizes.
func (s *SeqClient) Send(data []byte, cuts []int) error {
	if len(cuts) == 0 {
		cuts = []int{len(data)}
	}
	for _, n := range cuts {
		if n > len(data) {
			n = len(data)
		}
		if _, err := s.C.Write(data[:n]); err != nil {
			return err
		}
		data = data[n:]
	}
	if len(data) > 0 {
		_, err := s.C.Write(data)
		return err
	}
	return nil
}

// ReadResp reads one final response (interim 1xx responses are skipped and
// returned in interim).
func (s *SeqClient) ReadResp(method string, obs time.Duration) (r *Resp, interim []*Resp, err error) {
	for {
		s.C.SetReadDeadline(time.Now().Add(obs))
		head, err := peekHead(s.br)
		if err != nil {
			return nil, interim, err
		}
		_ = head
		resp, err := http.ReadResponse(s.br, &http.Request{Method: method})
		if err != nil {
			return nil, interim, err
		}
		r := &Resp{Status: resp.StatusCode, StatusLine: resp.Status, Proto: resp.Proto, Header: resp.Header, Inv: -1}
		// net/http removes "Connection: close" from the header map and reports it as resp.Close
		r.Close = resp.Close || hasToken(resp.Header.Values("Connection"), "close")
		if v := resp.Header.Get("X-Inv"); v != "" {
			r.Inv, _ = strconv.Atoi(v)
		}
		if r.Status >= 100 && r.Status < 200 && r.Status != 101 {
			interim = append(interim, r)
			continue
		}
		r.Body, r.BodyErr = io.ReadAll(resp.Body)
		resp.Body.Close()
		return r, interim, r.BodyErr
	}
}

// ProbeClosed waits up to obs for the server to close the connection. It
// returns closed=true on EOF/reset, false when the deadline passes with the
// connection still open; extra holds unexpected bytes received meanwhile.
func (s *SeqClient) ProbeClosed(obs time.Duration) (closed bool, extra []byte) {
	s.C.SetReadDeadline(time.Now().Add(obs))
	buf := make([]byte, 4096)
	for {
		n, err := s.br.Read(buf)
		extra = append(extra, buf[:n]...)
		if err != nil {
			return !isTimeout(err), extra
		}
	}
}
