package harness

import (
	"context"
	"bytes"
	"io"
	"bufio"
	"fmt"
	"net"
	"net/http"
	"strings"
	"time"

	"github.com/valyala/fasthttp"
	"verif/simrt/simnet"
)

// C10: connection persistence matches the Connection header sent.

type c10Req struct {
	Proto    string `json:"proto"`
	ConnHdr  string `json:"connection"` // "" = absent
	Handler  string `json:"handler"`    // "", setclose, header-close, header-keepalive
	WantStop bool   `json:"-"`
	Body     string `json:"body,omitempty"`         // "" | small | big | chunked : a POST whose body the handler leaves alone unless Handler is readbody
	SlowMs   int    `json:"client_reads_after_ms,omitempty"` // the client starts reading the (large) response late, through a small receive window
}

type c10Conn struct {
	Reqs []c10Req `json:"reqs"`
}

type c10Plan struct {
	Mode            string    `json:"mode"` // server | client
	DisableKA       bool      `json:"disable_keepalive"`
	MaxReqs         int       `json:"max_requests_per_conn"`
	CloseOnShutdown bool      `json:"close_on_shutdown"`
	ShutdownAfterMs int       `json:"shutdown_after_ms"` // -1 none
	Conns           []c10Conn `json:"conns"`
	// client mode
	RespConn []string `json:"response_connection_values"`
	RespName []string `json:"response_connection_names"`
	StreamReq     bool `json:"stream_request_body,omitempty"`
	ShutdownCtxMs int  `json:"shutdown_context_ms,omitempty"` // >0: ShutdownWithContext with this timeout (it may give up)
	NoNorm   bool     `json:"disable_header_names_normalizing"`
	Calls    int      `json:"calls"`
	Stream   bool     `json:"stream_response_body,omitempty"`
	CallerDoes []string `json:"caller_does_before_release,omitempty"` // per call: "" | del-connection | reset-header | set-keepalive
}

func init() { scenarios["C10"] = scenC10 }

var c10ConnValues = []string{"", "", "", "close", "Close", "CLOSE", "keep-alive", "Keep-Alive", "keep-alive, close", "close, keep-alive", "foo, close", "upgrade", "close,foo", " close ", "closed", "TE, close"}

func scenC10(e *Env) func() {
	p := &c10Plan{Mode: Pick(e, "server", "server", "server", "client")}
	if p.Mode == "client" {
		p.Calls = e.Range(2, 6)
		for i := 0; i < p.Calls; i++ {
			p.RespConn = append(p.RespConn, Pick(e, "", "close", "Close", "CLOSE", "keep-alive, close", "foo, close", "keep-alive", "close, foo"))
			p.RespName = append(p.RespName, Pick(e, "Connection", "Connection", "connection", "CONNECTION", "cOnNeCtIoN"))
		}
		p.NoNorm = e.Chance(30)
		p.Stream = e.Chance(40)
		for i := 0; i < p.Calls; i++ {
			// what a caller may do with the response it was given before letting go of it
			p.CallerDoes = append(p.CallerDoes, Pick(e, "", "", "del-connection", "reset-header", "set-keepalive"))
		}
		e.Sample = p
		return func() { c10Client(e, p) }
	}
	p.DisableKA = e.Chance(10)
	p.MaxReqs = Pick(e, 0, 0, 0, 1, 2, 3)
	p.CloseOnShutdown = e.Chance(30)
	p.ShutdownAfterMs = -1
	if e.Chance(30) {
		p.ShutdownAfterMs = Pick(e, 0, 50, 150, 400)
		p.ShutdownCtxMs = Pick(e, 0, 0, 30, 300)
	}
	p.StreamReq = e.Chance(30)
	nconn := e.Range(1, 3)
	for ci := 0; ci < nconn; ci++ {
		var c c10Conn
		n := e.Range(1, 6)
		for i := 0; i < n; i++ {
			c.Reqs = append(c.Reqs, c10Req{
				Proto:   Pick(e, "HTTP/1.1", "HTTP/1.1", "HTTP/1.1", "HTTP/1.0"),
				ConnHdr: c10ConnValues[e.Int(len(c10ConnValues))],
				Handler: Pick(e, "", "", "", "", "", "setclose", "header-close", "header-keepalive", "timeout-resp-close", "timeout-resp", "readbody", "bigbody", "reset-resp", "error", "del-connection"),
				Body:    Pick(e, "", "", "", "small", "big", "chunked"),
			})
			if r := &c.Reqs[len(c.Reqs)-1]; r.Handler == "bigbody" {
				r.SlowMs = Pick(e, 0, 100, 1000)
			}
			if r := &c.Reqs[len(c.Reqs)-1]; r.Proto == "HTTP/1.0" && e.Chance(50) {
				r.ConnHdr = Pick(e, "keep-alive", "Keep-Alive", "KEEP-ALIVE")
			}
		}
		p.Conns = append(p.Conns, c)
	}
	if e.Chance(12) {
		// a response decided during a shutdown that gives up before the response is out: the
		// handler is still running when ShutdownWithContext starts, the (large) response is
		// written to a reader that starts late, and the context expires in between
		p.CloseOnShutdown, p.ShutdownAfterMs, p.ShutdownCtxMs = true, Pick(e, 50, 150), Pick(e, 30, 300)
		p.DisableKA, p.MaxReqs = false, 0
		p.Conns[0].Reqs[0] = c10Req{Proto: "HTTP/1.1", Handler: "slowbig", SlowMs: 1000}
	}
	e.Sample = p
	return func() { c10Server(e, p) }
}

func c10Server(e *Env, p *c10Plan) {
	s := &fasthttp.Server{DisableKeepalive: p.DisableKA, MaxRequestsPerConn: p.MaxReqs, CloseOnShutdown: p.CloseOnShutdown, IdleTimeout: 10 * time.Minute, StreamRequestBody: p.StreamReq}
	k := NewServerKit(e, s)
	k.SkipBody = true // the kit must not read the body on the handler's behalf
	k.Handle = func(ctx *fasthttp.RequestCtx, inv *Inv) {
		switch string(ctx.Request.Header.Peek("X-Handler")) {
		case "setclose":
			ctx.SetConnectionClose()
		case "header-close":
			ctx.Response.Header.Set("Connection", "close")
		case "header-keepalive":
			ctx.Response.Header.Set("Connection", "keep-alive")
		case "timeout-resp-close":
			// an explicit response, marked close, handed over the way a
			// timed-out handler would
			r := fasthttp.AcquireResponse()
			r.SetStatusCode(200)
			r.SetBodyString("ok")
			r.SetConnectionClose()
			ctx.TimeoutErrorWithResponse(r)
			fasthttp.ReleaseResponse(r)
			return
		case "timeout-resp":
			r := fasthttp.AcquireResponse()
			r.SetStatusCode(200)
			r.SetBodyString("ok")
			ctx.TimeoutErrorWithResponse(r)
			fasthttp.ReleaseResponse(r)
			return
		case "reset-resp":
			// the handler starts over: what the server put into the response before the
			// handler ran is gone
			ctx.Response.Reset()
		case "error":
			ctx.Error("ok", 200)
			return
		case "del-connection":
			ctx.Response.Header.Del("Connection")
		case "readbody":
			ctx.PostBody()
		case "bigbody":
			ctx.SetBody(bytes.Repeat([]byte("big "), 20000))
			return
		case "slowbig":
			time.Sleep(200 * time.Millisecond)
			ctx.SetBody(bytes.Repeat([]byte("big "), 20000))
			return
		}
		ctx.SetBodyString("ok")
	}
	k.Start()
	shutdownStart := time.Duration(-1)
	shutdownEnd := time.Duration(-1)
	var shutdownDone chan struct{}
	if p.ShutdownAfterMs >= 0 {
		shutdownDone = make(chan struct{})
		Go("shutdown", func() {
			time.Sleep(time.Duration(p.ShutdownAfterMs) * time.Millisecond)
			shutdownStart = time.Since(simrtEpoch())
			if p.ShutdownCtxMs > 0 {
				cx, cancel := context.WithTimeout(context.Background(), time.Duration(p.ShutdownCtxMs)*time.Millisecond)
				if err := k.S.ShutdownWithContext(cx); err != nil {
					e.Probe("shutdown-gave-up")
				}
				cancel()
			} else {
				k.S.Shutdown()
			}
			shutdownEnd = time.Since(simrtEpoch())
			close(shutdownDone)
		})
	}
	var fs []func()
	for ci := range p.Conns {
		ci := ci
		fs = append(fs, func() { c10Conn1(e, k, p, ci, &shutdownStart, &shutdownEnd) })
	}
	if !WaitAll(time.Hour, "conn", fs...) {
		e.Violation("liveness/clients", "clients did not finish")
		return
	}
	if shutdownDone == nil {
		k.Shutdown(time.Minute)
	}
}

func c10Conn1(e *Env, k *ServerKit, p *c10Plan, ci int, shutdownStart, shutdownEnd *time.Duration) {
	sc, err := k.NewSeqClient(fmt.Sprintf("10.0.10.%d", ci+1), simnet.Faults{})
	if err != nil {
		return
	}
	defer sc.C.Close()
	for i, r := range p.Conns[ci].Reqs {
		var b strings.Builder
		method, body := "GET", ""
		switch r.Body {
		case "small":
			method, body = "POST", strings.Repeat("s", 300)
		case "big", "chunked":
			method, body = "POST", strings.Repeat("b", 20000)
		}
		if r.Body == "chunked" && r.Proto == "HTTP/1.0" {
			method, body = "GET", "" // no chunked bodies on HTTP/1.0
		}
		fmt.Fprintf(&b, "%s /c%d-r%d %s\r\nHost: x\r\nX-Handler: %s\r\n", method, ci, i, r.Proto, r.Handler)
		if r.ConnHdr != "" {
			fmt.Fprintf(&b, "Connection: %s\r\n", r.ConnHdr)
		}
		switch {
		case body != "" && r.Body == "chunked":
			fmt.Fprintf(&b, "Transfer-Encoding: chunked\r\n\r\n%x\r\n%s\r\n0\r\n\r\n", len(body), body)
		case body != "":
			fmt.Fprintf(&b, "Content-Length: %d\r\n\r\n%s", len(body), body)
		default:
			b.WriteString("\r\n")
		}
		if r.SlowMs > 0 {
			sc.C.Peer().F.Window = 2000 // the server's response write waits for this reader
		}
		if i > 0 {
			time.Sleep(100 * time.Millisecond)
		}
		// the listener is closed after Shutdown has raised the stop flag: a
		// request sent once it is closed is served under shutdown
		stopping := k.Ln.IsClosed()
		if err := sc.Send([]byte(b.String()), nil); err != nil {
			// connection already closed by the server: only legal if a shutdown is in progress
			if *shutdownStart < 0 {
				e.Violation("header-socket/closed-without-close", "conn %d: request %d could not be sent (%v) although the previous response did not say close and no shutdown was started", ci, i, err)
			}
			return
		}
		if r.SlowMs > 0 {
			time.Sleep(time.Duration(r.SlowMs) * time.Millisecond)
		}
		resp, _, err := sc.ReadResp(method, 60*time.Second)
		if err != nil {
			if *shutdownStart >= 0 {
				return // closed by shutdown while idle: legal
			}
			e.Violation("header-socket/closed-without-close", "conn %d: no response to request %d (%v) although the previous response did not say close", ci, i, err)
			return
		}
		e.Ob(1)
		e.Nontrivial = true
		if resp.Status != 200 {
			return // rejected request: not this property's subject
		}
		// reasons that require close
		reason := ""
		http10 := r.Proto == "HTTP/1.0"
		switch {
		case hasToken([]string{r.ConnHdr}, "close"):
			reason = "request-close"
			if strings.TrimSpace(r.ConnHdr) != "close" {
				reason = "request-close-variant"
			}
		case http10 && !hasToken([]string{r.ConnHdr}, "keep-alive"):
			reason = "http10"
		case p.DisableKA:
			reason = "disable-keepalive"
		case p.MaxReqs > 0 && i+1 >= p.MaxReqs:
			reason = "max-requests"
		case r.Handler == "setclose":
			reason = "handler-setclose"
		case r.Handler == "header-close":
			reason = "handler-header"
		case r.Handler == "timeout-resp-close":
			reason = "handler-timeout-response-close"
		case p.CloseOnShutdown && stopping && *shutdownEnd < 0:
			// (a ShutdownWithContext that has given up is no shutdown any more)
			reason = "close-on-shutdown"
		}
		if reason != "" && !resp.Close {
			if !e.Violation("must-close/"+reason, "conn %d request %d (%s, Connection: %q, handler %q): response carries Connection: %q but %s requires close", ci, i, r.Proto, r.ConnHdr, r.Handler, resp.Header.Values("Connection"), reason) {
				return
			}
			return
		}
		if reason == "" && http10 && !resp.Close && !hasToken(resp.Header.Values("Connection"), "keep-alive") {
			e.Violation("http10-keepalive", "conn %d request %d: HTTP/1.0 keep-alive request answered without Connection: keep-alive (%q)", ci, i, resp.Header.Values("Connection"))
			return
		}
		// header vs socket
		if resp.Close {
			closed, extra := sc.ProbeClosed(30 * time.Second)
			e.Ob(1)
			if !closed {
				e.Violation("header-socket/open-after-close", "conn %d request %d: response said Connection: close but the connection was still open 30 s later", ci, i)
			}
			if len(extra) > 0 {
				e.Violation("header-socket/bytes-after-close", "conn %d: %d bytes after a Connection: close response", ci, len(extra))
			}
			return
		}
		// response did not say close: the connection must stay open (checked by
		// the next request being served, or by the final probe)
		if i == len(p.Conns[ci].Reqs)-1 {
			closed, _ := sc.ProbeClosed(20 * time.Second)
			e.Ob(1)
			if closed && *shutdownStart < 0 {
				e.Violation("header-socket/closed-without-close", "conn %d: last response did not say close, yet the server closed the connection within 20 s (IdleTimeout is 10 min, no shutdown)", ci)
			}
		}
	}
}

// ---- client half: a response that said close is never followed by another
// request on that connection ----

func c10Client(e *Env, p *c10Plan) {
	addr := tcpAddr("10.0.0.2", 80)
	ln := e.Net.Listen(addr)
	type connLog struct {
		reqs      int
		saidClose int // request index (1-based) whose response said close; 0 none
	}
	var logs []*connLog
	respIdx := 0
	Go("fake-server", func() {
		for {
			c, err := ln.Accept()
			if err != nil {
				return
			}
			cl := &connLog{}
			logs = append(logs, cl)
			Go("fake-conn", func() {
				br := bufio.NewReader(c)
				for {
					c.SetReadDeadline(time.Now().Add(5 * time.Minute))
					req, err := http.ReadRequest(br)
					if err != nil {
						c.Close()
						return
					}
					cl.reqs++
					if cl.saidClose != 0 {
						e.Violation("client-reuse", "the client sent request %s on a connection whose response #%d carried Connection: %q", req.URL.Path, cl.saidClose, p.RespConn[(respIdx-1+len(p.RespConn))%len(p.RespConn)])
					}
					v := p.RespConn[respIdx%len(p.RespConn)]
					name := p.RespName[respIdx%len(p.RespName)]
					respIdx++
					h := ""
					if v != "" {
						h = name + ": " + v + "\r\n"
					}
					if hasToken([]string{v}, "close") {
						cl.saidClose = cl.reqs
					}
					fmt.Fprintf(c, "HTTP/1.1 200 OK\r\nContent-Length: 2\r\n%s\r\nok", h)
					// the socket is deliberately left open
				}
			})
		}
	})
	port := 50000
	hc := &fasthttp.HostClient{Addr: "10.0.0.2:80", MaxConns: 2, DisableHeaderNamesNormalizing: p.NoNorm, StreamResponseBody: p.Stream, Dial: func(a string) (net.Conn, error) {
		port++
		return e.Net.Dial(tcpAddr("10.0.5.1", port), addr.String())
	}}
	for i := 0; i < p.Calls; i++ {
		req, resp := fasthttp.AcquireRequest(), fasthttp.AcquireResponse()
		req.SetRequestURI(fmt.Sprintf("http://10.0.0.2/call-%d", i))
		err := hc.DoTimeout(req, resp, 30*time.Second)
		e.Ob(1)
		if err == nil {
			e.Nontrivial = true
			// the response is the caller's: whatever it does to it must not
			// change the connection's fate, which the wire response decided
			switch p.CallerDoes[i%len(p.CallerDoes)] {
			case "del-connection":
				resp.Header.Del("Connection")
			case "reset-header":
				resp.Header.Reset()
			case "set-keepalive":
				resp.Header.Set("Connection", "keep-alive")
			}
			if p.Stream {
				if bs := resp.BodyStream(); bs != nil {
					io.Copy(io.Discard, bs)
				}
				resp.CloseBodyStream()
			}
			fasthttp.ReleaseResponse(resp)
		}
		time.Sleep(10 * time.Millisecond)
	}
	hc.CloseIdleConnections()
	ln.Close()
}
