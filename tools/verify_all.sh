#!/bin/bash
# verify_all.sh <ID>... : runs verify_seed.sh for every /tmp/seeds/<ID>/<k> that has a patch and no verify.txt yet (PAR at a time).
# A patch that no longer applies to /repo HEAD (a later fix touched the same lines) is verified against the commit it was written for.
for ID in "$@"; do for k in 1 2 3; do d=/tmp/seeds/$ID/$k; [ -f $d/patch.diff ] && [ ! -f $d/verify.txt ] && echo $d; done; done |
  xargs -r -P ${PAR:-4} -I{} sh -c 'B=$(/verif/tools/pick_base.sh {}/patch.diff); BASE=$B /verif/tools/verify_seed.sh {} > {}/verify.txt.tmp 2>&1; echo "base=$B" >> {}/verify.txt.tmp; mv {}/verify.txt.tmp {}/verify.txt; echo "{} $(grep RESULT {}/verify.txt) base=$B"'
