// Package sync (import path verif/simrt/simsync) provides drop-in replacements
// for the sync types used by fasthttp; each operation starts with a scheduler gate.
package sync
