#!/bin/bash
# verify_seed.sh <seed-dir>   (contains patch.diff, demo_test.go [+ optional subdir hint in notes])
# Confirms in a scratch worktree: suite passes with the patch; demo passes without and fails with it.
set -u
S=$1
[ -f $S/demo_test.go ] || { f=$(ls $S/*_test.go 2>/dev/null | head -1); [ -n "$f" ] && cp $f $S/demo_test.go; }
WT=/tmp/wt/verify-$$-$RANDOM
export GOFLAGS=-mod=mod GOPROXY=off
git -C /repo worktree add -q --detach $WT ${BASE:-HEAD} || exit 2
trap 'git -C /repo worktree remove --force $WT >/dev/null 2>&1' EXIT
cd $WT
# where does the demo go? the directory of the first changed file's package unless the demo says otherwise
pkgdir=$(grep -m1 '^package ' $S/demo_test.go | awk '{print $2}')
dir=.
case "$pkgdir" in
  fasthttp|fasthttp_test) dir=. ;;
  fasthttputil*) dir=fasthttputil ;;
  fasthttpadaptor*) dir=fasthttpadaptor ;;
  stackless*) dir=stackless ;;
  prefork*) dir=prefork ;;
  main) dir=demo_main ;;
esac
if [ "$dir" = demo_main ]; then mkdir -p demo_main; cp $S/demo_test.go demo_main/main.go 2>/dev/null; fi
cp $S/demo_test.go $dir/zz_seed_demo_test.go
run_demo() { (cd $dir && timeout 600 go test -vet=off -count=1 -run "$(grep -o 'func Test[A-Za-z0-9_]*' zz_seed_demo_test.go | sed 's/func //' | paste -sd'|')" . >/tmp/seed-demo-$$.log 2>&1); }
run_demo; base=$?
git apply $S/patch.diff || { echo "RESULT patch-does-not-apply"; exit 1; }
run_demo; with=$?
rm -f $dir/zz_seed_demo_test.go
timeout 1200 go test -vet=off -count=1 . ./fasthttputil ./stackless ./fasthttpadaptor ./prefork >/tmp/seed-suite-$$.log 2>&1; suite=$?
echo "RESULT demo_without=$base demo_with=$with suite_with=$suite"
[ $suite -ne 0 ] && grep -E "^(--- FAIL|FAIL|ok)" /tmp/seed-suite-$$.log | head -8
rm -f /tmp/seed-demo-$$.log /tmp/seed-suite-$$.log
