// This go.mod only marks the module root for editors; checks build with a
// generated -modfile whose replace directives point at the instrumented copy.
module verif/harness

go 1.25.0
