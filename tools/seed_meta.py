#!/usr/bin/env python3
"""seed_meta.py : (re)writes /verif/seeded/<ID>-<k>/meta.json for every seed under /tmp/seeds and prints the
detection table (markdown) used in DESIGN.md section 15. Inputs per seed directory /tmp/seeds/<ID>/<k>/:
patch.diff, demo_test.go, notes.md, verify.txt (tools/verify_seed.sh), eval.txt and eval-<PROP>.txt (tools/eval_seed.sh)."""
import os, re, json, glob, shutil, sys
rows = []
for d in sorted(glob.glob('/tmp/seeds/C*/[123]')):
    ID, k = d.split('/')[-2], d.split('/')[-1]
    PROP = re.sub(r'b$', '', ID)
    if not os.path.exists(d + '/patch.diff') or not os.path.exists(d + '/verify.txt'):
        continue  # not there yet, or not confirmed yet
    dst = f'/verif/seeded/{ID}-{k}'
    os.makedirs(dst, exist_ok=True)
    for f in ('patch.diff', 'demo_test.go', 'notes.md'):
        if os.path.exists(f'{d}/{f}'):
            shutil.copy(f'{d}/{f}', dst)
    notes = open(d + '/notes.md').read() if os.path.exists(d + '/notes.md') else ''
    title = next((l.lstrip('# ').strip() for l in notes.splitlines() if l.strip()), '')
    needs = ''
    m = re.search(r'(?is)(needed to manifest|needs to manifest|what is needed|trigger|needed)[^\n]*?:\s*(.+?)(\n\s*\n|\n#|\Z)', notes)
    if m:
        needs = ' '.join(m.group(2).split())[:600]
    files = sorted(set(re.findall(r'^\+\+\+ b/(\S+)', open(d + '/patch.diff').read(), re.M)))
    ver = {'demo_passes_on_clean_tree': None, 'demo_fails_with_change': None, 'suite_passes_with_change': None, 'base': None}
    if os.path.exists(d + '/verify.txt'):
        t = open(d + '/verify.txt').read()
        m = re.search(r'RESULT demo_without=(\d+) demo_with=(\d+) suite_with=(\d+)', t)
        if m:
            ver['demo_passes_on_clean_tree'] = m.group(1) == '0'
            ver['demo_fails_with_change'] = m.group(2) != '0'
            ver['suite_passes_with_change'] = m.group(3) == '0'
        m = re.search(r'base=(\S+)', t)
        if m:
            ver['base'] = m.group(1)
        if os.path.exists(d + '/verify_note.txt'):
            ver['note'] = open(d + '/verify_note.txt').read().strip()
    checks = {}
    for ef in sorted(glob.glob(d + '/eval*.txt')):
        prop = PROP
        m = re.match(r'.*eval-(C\d+)\.txt', ef)
        if m:
            prop = m.group(1)
        t = open(ef).read()
        sigs = sorted(set(re.findall(r'signature=(\S+)', t)))
        rc = re.search(r'EXIT=(\d+)', t)
        runs = re.search(r'(C\d+ \w+: \d+ runs[^\n]*)', t)
        checks[prop] = {'exit': int(rc.group(1)) if rc else None, 'signatures': sigs, 'summary': runs.group(1)[:200] if runs else ''}
    caught = [p for p, c in checks.items() if isinstance(c, dict) and c['exit'] == 1]
    if os.path.exists(d + '/note_eval.txt'):
        checks['note'] = open(d + '/note_eval.txt').read().strip()
    meta = {'property': PROP, 'seed': f'{ID}-{k}', 'title': title, 'files_changed': files, 'needs_to_manifest': needs,
            'confirmed_in_scratch_worktree': ver, 'checks_run': checks, 'caught_by': caught,
            'how_to_apply': f'git -C /repo apply /verif/seeded/{ID}-{k}/patch.diff ; ./check {PROP} quick ; git -C /repo checkout -- .  (or tools/eval_seed.sh {PROP} /verif/seeded/{ID}-{k}/patch.diff quick 30, which uses a scratch worktree)'}
    json.dump(meta, open(dst + '/meta.json', 'w'), indent=1)
    ok = ver['demo_passes_on_clean_tree'] and ver['demo_fails_with_change'] and ver['suite_passes_with_change']
    sig = '; '.join(f"{p}: {', '.join(s.split('/',1)[1] for s in c['signatures'][:3])}" for p, c in checks.items() if isinstance(c, dict) and c['exit'] == 1)
    if 'note' in checks and sig:
        sig += ' (see meta.json: note)'
    rows.append((f'{ID}-{k}', title[:110], 'yes' if ok else ('?' if ver['demo_passes_on_clean_tree'] is None else 'partly'), sig or ('— (missed)' if checks else 'not run')))
print('| seed | change | confirmed | caught by (signatures) |\n|---|---|---|---|')
for r in rows:
    print('| ' + ' | '.join(r) + ' |')
n = len(rows); c = sum(1 for r in rows if not r[3].startswith('—') and r[3] != 'not run')
print(f'\n{c} of {n} seeded changes are caught by at least one check.')
