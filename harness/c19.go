package harness

import (
	"bytes"
	"errors"
	"fmt"
	"net"
	"net/http"
	"strings"
	"sync"
	"time"

	"github.com/valyala/fasthttp"
	"verif/simrt/simnet"
)

// C19: client retries are bounded and respect idempotency.

var c19Faults = []string{"ok", "dial", "eof", "readtimeout", "reset", "oversize", "write"}

type c19Case struct {
	ID        string   `json:"id"`
	Method    string   `json:"method"`
	Body      string   `json:"body"` // none | bytes | stream
	Attempts  int      `json:"max_attempts"` // 0: default (5)
	Callback  string   `json:"callback"` // none | retryif-true | retryif-false | retryiferr-true | retryiferr-reset | retryiferr-false
	TimeoutMs int      `json:"timeout_ms"` // 0: Do
	Faults    []string `json:"faults"`
	OverFrame string   `json:"oversize_framing"` // cl | chunked | close
	Stale     int      `json:"stale_pooled_conns,omitempty"` // idle keep-alive connections in the pool whose next write fails (the peer went away)
}

type c19Plan struct {
	MaxResp int       `json:"max_response_body_size"`
	Cases   []c19Case `json:"cases"`
}

func init() { scenarios["C19"] = scenC19 }

func scenC19(e *Env) func() {
	p := &c19Plan{MaxResp: Pick(e, 1000, 1000, 4096, 2500)}
	n := 12
	// enumeration: in the thorough tier the fault sequence of case j of run i
	// is the (i*n+j)-th sequence of length 6 over the 7 fault kinds
	base := *flagIndex * n
	for j := 0; j < n; j++ {
		c := c19Case{ID: fmt.Sprintf("c%d", j), Method: Pick(e, "GET", "GET", "HEAD", "PUT", "POST", "DELETE", "PATCH"), Body: Pick(e, "none", "none", "bytes", "stream"),
			Attempts: Pick(e, 0, 0, 1, 2, 3, 6), Callback: Pick(e, "none", "none", "none", "retryif-true", "retryif-false", "retryiferr-true", "retryiferr-reset", "retryiferr-false", "retryiferr-slow"), TimeoutMs: Pick(e, 0, 0, 700, 3000)}
		if !e.Thorough() && e.Chance(25) {
			c.Stale = Pick(e, 1, 2, 3)
		}
		c.OverFrame = Pick(e, "cl", "cl", "chunked", "close")
		if c.Method == "GET" || c.Method == "HEAD" {
			if c.Body == "bytes" {
				c.Body = "none"
			}
		}
		if e.Thorough() {
			k := base + j
			for d := 0; d < 6; d++ {
				c.Faults = append(c.Faults, c19Faults[k%len(c19Faults)])
				k /= len(c19Faults)
			}
			e.W.Draw(2) // keep the tape moving identically
		} else {
			m := e.Range(1, 7)
			for d := 0; d < m; d++ {
				c.Faults = append(c.Faults, c19Faults[e.Int(len(c19Faults))])
			}
		}
		c.Faults = append(c.Faults, "ok")
		p.Cases = append(p.Cases, c)
	}
	e.Sample = p
	return func() { c19Run(e, p) }
}

type chunkReader struct {
	data []byte
	off  int
}

func (r *chunkReader) Read(p []byte) (int, error) {
	if r.off >= len(r.data) {
		return 0, errEOF
	}
	n := copy(p, r.data[r.off:])
	r.off += n
	return n, nil
}

var errEOF = errors.New("EOF")

func c19Run(e *Env, p *c19Plan) {
	fs := NewFakeServer(e, "10.0.0.2", 80)
	byID := map[string]*c19Case{}
	for i := range p.Cases {
		byID[p.Cases[i].ID] = &p.Cases[i]
	}
	var mu sync.Mutex
	attempt := map[string]int{}  // attempts so far (dial failures included)
	// the server consults the attempt counter of the case: attempt k gets Faults[k]
	fs.Plan = func(id string, req *http.Request) srvAction {
		c := byID[id]
		mu.Lock()
		k := attempt[id] - 1
		mu.Unlock()
		f := "ok"
		if c != nil && k >= 0 && k < len(c.Faults) {
			f = c.Faults[k]
		}
		a := srvAction{Status: 200, BodyLen: 20, Framing: "cl"}
		switch f {
		case "eof":
			a.EOFBefore = true
		case "readtimeout":
			a.Stall = true
		case "reset":
			a.BodyLen, a.CloseAt = 400, 60
		case "oversize":
			a.BodyLen = 5000
			a.Framing = c.OverFrame
		}
		return a
	}
	fs.Start()
	for i := range p.Cases {
		c := &p.Cases[i]
		limit := c.Attempts
		if limit <= 0 {
			limit = 5
		}
		port := 21000 + i*20
		cur := ""
		dial := func(addr string) (net.Conn, error) {
			mu.Lock()
			k := attempt[cur]
			attempt[cur]++
			mu.Unlock()
			port++
			f := "ok"
			if k < len(c.Faults) {
				f = c.Faults[k]
			}
			if f == "dial" {
				e.Fault("dial_error")
				return nil, &net.OpError{Op: "dial", Net: "tcp", Err: simnet.ErrRefused}
			}
			conn, err := e.Net.Dial(tcpAddr("10.0.19.1", port), addr)
			if err != nil {
				return nil, err
			}
			if f == "write" {
				e.Fault("write_error")
				conn.F.FailWriteAt = 5
			}
			return conn, nil
		}
		cbCalls := 0
		nwarm := 0
		var caseConns []*simnet.Conn
		rawDial := dial
		dial = func(addr string) (net.Conn, error) {
			c, err := rawDial(addr)
			if sc, ok := c.(*simnet.Conn); ok && err == nil {
				mu.Lock()
				caseConns = append(caseConns, sc)
				mu.Unlock()
			}
			return c, err
		}
		maxConns := 1
		if c.Stale > 0 {
			maxConns = c.Stale
		}
		hc := &fasthttp.HostClient{Addr: "10.0.0.2:80", Dial: dial, MaxConns: maxConns, MaxIdemponentCallAttempts: c.Attempts, MaxResponseBodySize: p.MaxResp, ReadTimeout: 400 * time.Millisecond, MaxIdleConnDuration: time.Hour}
		allow := false
		reset := false
		switch c.Callback {
		case "retryif-true":
			hc.RetryIf = func(*fasthttp.Request) bool { cbCalls++; return true }
			allow = true
		case "retryif-false":
			hc.RetryIf = func(*fasthttp.Request) bool { cbCalls++; return false }
		case "retryiferr-true":
			hc.RetryIfErr = func(*fasthttp.Request, int, error) (bool, bool) { cbCalls++; return false, true }
			allow = true
		case "retryiferr-reset":
			hc.RetryIfErr = func(*fasthttp.Request, int, error) (bool, bool) { cbCalls++; return true, true }
			allow, reset = true, true
		case "retryiferr-false":
			hc.RetryIfErr = func(*fasthttp.Request, int, error) (bool, bool) { cbCalls++; return false, false }
		case "retryiferr-slow":
			// a callback that takes its time (back-off): the time is the request's, which it does not reset
			hc.RetryIfErr = func(*fasthttp.Request, int, error) (bool, bool) {
				cbCalls++
				time.Sleep(500 * time.Millisecond)
				return false, true
			}
			allow = true
		}
		if c.Stale > 0 {
			// fill the pool: c.Stale concurrent warm-up calls, then every pooled connection goes bad
			cur = "warm-" + c.ID
			var warm []func()
			for w := 0; w < c.Stale; w++ {
				warm = append(warm, func() {
					rq, rs := fasthttp.AcquireRequest(), fasthttp.AcquireResponse()
					rq.SetRequestURI("http://10.0.0.2/r?id=warm-" + c.ID)
					hc.Do(rq, rs)
				})
			}
			WaitAll(time.Minute, "warm", warm...)
			mu.Lock()
			for _, sc := range caseConns {
				sc.F.FailWriteAt = int64(len(sc.Sent())) + 30
			}
			nwarm = len(caseConns)
			mu.Unlock()
			e.Fault("stale_pooled_conn")
		}
		req, resp := fasthttp.AcquireRequest(), fasthttp.AcquireResponse()
		req.SetRequestURI("http://10.0.0.2/r?id=" + c.ID)
		req.Header.SetMethod(c.Method)
		switch c.Body {
		case "bytes":
			req.SetBodyString("payload")
		case "stream":
			req.SetBodyStream(bytes.NewReader([]byte("stream-payload")), 14)
		}
		cur = c.ID
		start := Now()
		var err error
		if c.TimeoutMs > 0 {
			err = hc.DoTimeout(req, resp, time.Duration(c.TimeoutMs)*time.Millisecond)
		} else {
			err = hc.Do(req, resp)
		}
		took := Now() - start
		// let a stalled server connection die
		hc.CloseIdleConnections()
		logs := fs.Requests(c.ID)
		mu.Lock()
		tried := attempt[c.ID]
		dials := tried // index into the per-dial fault list
		// transmissions also count when they died on the way: every connection that carries the request line
		// (attempts = dials made for this request + pooled connections it was written to)
		for _, sc := range caseConns[:nwarm] {
			if bytes.Contains(sc.Sent(), []byte("id="+c.ID+" ")) {
				tried++
				e.Probe("written-to-stale-pooled-conn")
			}
		}
		mu.Unlock()
		e.Ob(1)
		e.Nontrivial = true
		tag := fmt.Sprintf("case %s (%s body=%s attempts=%d callback=%s timeout=%dms faults=%v): %d transmissions, %d attempts, err=%v", c.ID, c.Method, c.Body, c.Attempts, c.Callback, c.TimeoutMs, c.Faults, len(logs), tried, err)
		if len(logs) > limit || tried > limit {
			e.Violation("attempts-exceeded", "%s; limit %d", tag, limit)
			return
		}
		idem := c.Method == "GET" || c.Method == "HEAD" || c.Method == "PUT"
		cbAllows := allow
		if c.Callback == "retryif-false" || c.Callback == "retryiferr-false" {
			cbAllows = false
			if tried > 1 {
				e.Violation("callback-refused", "%s; the callback refused every retry", tag)
				return
			}
		}
		if !idem && !cbAllows && tried > 1 {
			e.Violation("non-idempotent-retried", "%s", tag)
			return
		}
		if c.Body == "stream" && tried > 1 {
			e.Violation("stream-retried", "%s", tag)
			return
		}
		// nothing after an oversized response
		for k, f := range c.Faults {
			if f == "oversize" && k < dials-1 {
				e.Violation("retried-after-too-large", "%s; attempt %d ended with a too large body and was followed by another attempt", tag, k)
				return
			}
			if f == "oversize" && k == dials-1 && c.Method != "HEAD" && err == nil {
				e.Violation("too-large-accepted", "%s; a 5000-byte body (%s framing) was accepted with MaxResponseBodySize=%d", tag, c.OverFrame, p.MaxResp)
				return
			}
		}
		// no attempt starts after the request deadline (unless the callback reset it)
		if c.TimeoutMs > 0 && !reset {
			dl := start + time.Duration(c.TimeoutMs)*time.Millisecond
			for _, l := range logs {
				if l.At > dl+50*time.Millisecond {
					e.Violation("retry-past-deadline", "%s; a transmission arrived at %v, the request deadline was %v", tag, l.At, dl)
					return
				}
			}
			if took > time.Duration(c.TimeoutMs)*time.Millisecond+2*time.Second {
				e.Violation("returned-late", "%s; returned after %v", tag, took)
				return
			}
		}
		if err == nil && !strings.Contains(string(resp.Header.Peek("X-Id")), c.ID) {
			e.Violation("wrong-response", "%s; X-Id=%q", tag, resp.Header.Peek("X-Id"))
			return
		}
		if err == nil {
			e.Probe("call-ok")
		} else {
			e.Probe("call-failed")
		}
		if tried > 1 {
			e.Probe("retried")
		}
		for _, f := range c.Faults[:min(dials, len(c.Faults))] {
			if f != "ok" && f != "dial" && f != "write" {
				e.Fault(f)
			}
		}
	}
	fs.Ln.Close()
}
