// Package atomic: sync/atomic with a scheduling gate before every operation.
package atomic

import (
	goatomic "sync/atomic"
	"unsafe"

	"verif/simrt"
)

func g() { simrt.Gate("atomic", nil) }

func AddInt32(addr *int32, delta int32) int32 { g(); return goatomic.AddInt32(addr, delta) }
func LoadInt32(addr *int32) int32             { g(); return goatomic.LoadInt32(addr) }
func StoreInt32(addr *int32, v int32)         { g(); goatomic.StoreInt32(addr, v) }
func SwapInt32(addr *int32, v int32) int32    { g(); return goatomic.SwapInt32(addr, v) }
func CompareAndSwapInt32(addr *int32, o, n int32) bool {
	g()
	return goatomic.CompareAndSwapInt32(addr, o, n)
}

type Int32 struct{ v goatomic.Int32 }

func (x *Int32) Load() int32                    { g(); return x.v.Load() }
func (x *Int32) Store(v int32)                  { g(); x.v.Store(v) }
func (x *Int32) Add(d int32) int32              { g(); return x.v.Add(d) }
func (x *Int32) Swap(v int32) int32             { g(); return x.v.Swap(v) }
func (x *Int32) CompareAndSwap(o, n int32) bool { g(); return x.v.CompareAndSwap(o, n) }
func AddInt64(addr *int64, delta int64) int64   { g(); return goatomic.AddInt64(addr, delta) }
func LoadInt64(addr *int64) int64               { g(); return goatomic.LoadInt64(addr) }
func StoreInt64(addr *int64, v int64)           { g(); goatomic.StoreInt64(addr, v) }
func SwapInt64(addr *int64, v int64) int64      { g(); return goatomic.SwapInt64(addr, v) }
func CompareAndSwapInt64(addr *int64, o, n int64) bool {
	g()
	return goatomic.CompareAndSwapInt64(addr, o, n)
}

type Int64 struct{ v goatomic.Int64 }

func (x *Int64) Load() int64                      { g(); return x.v.Load() }
func (x *Int64) Store(v int64)                    { g(); x.v.Store(v) }
func (x *Int64) Add(d int64) int64                { g(); return x.v.Add(d) }
func (x *Int64) Swap(v int64) int64               { g(); return x.v.Swap(v) }
func (x *Int64) CompareAndSwap(o, n int64) bool   { g(); return x.v.CompareAndSwap(o, n) }
func AddUint32(addr *uint32, delta uint32) uint32 { g(); return goatomic.AddUint32(addr, delta) }
func LoadUint32(addr *uint32) uint32              { g(); return goatomic.LoadUint32(addr) }
func StoreUint32(addr *uint32, v uint32)          { g(); goatomic.StoreUint32(addr, v) }
func SwapUint32(addr *uint32, v uint32) uint32    { g(); return goatomic.SwapUint32(addr, v) }
func CompareAndSwapUint32(addr *uint32, o, n uint32) bool {
	g()
	return goatomic.CompareAndSwapUint32(addr, o, n)
}

type Uint32 struct{ v goatomic.Uint32 }

func (x *Uint32) Load() uint32                    { g(); return x.v.Load() }
func (x *Uint32) Store(v uint32)                  { g(); x.v.Store(v) }
func (x *Uint32) Add(d uint32) uint32             { g(); return x.v.Add(d) }
func (x *Uint32) Swap(v uint32) uint32            { g(); return x.v.Swap(v) }
func (x *Uint32) CompareAndSwap(o, n uint32) bool { g(); return x.v.CompareAndSwap(o, n) }
func AddUint64(addr *uint64, delta uint64) uint64 { g(); return goatomic.AddUint64(addr, delta) }
func LoadUint64(addr *uint64) uint64              { g(); return goatomic.LoadUint64(addr) }
func StoreUint64(addr *uint64, v uint64)          { g(); goatomic.StoreUint64(addr, v) }
func SwapUint64(addr *uint64, v uint64) uint64    { g(); return goatomic.SwapUint64(addr, v) }
func CompareAndSwapUint64(addr *uint64, o, n uint64) bool {
	g()
	return goatomic.CompareAndSwapUint64(addr, o, n)
}

type Uint64 struct{ v goatomic.Uint64 }

func (x *Uint64) Load() uint64                        { g(); return x.v.Load() }
func (x *Uint64) Store(v uint64)                      { g(); x.v.Store(v) }
func (x *Uint64) Add(d uint64) uint64                 { g(); return x.v.Add(d) }
func (x *Uint64) Swap(v uint64) uint64                { g(); return x.v.Swap(v) }
func (x *Uint64) CompareAndSwap(o, n uint64) bool     { g(); return x.v.CompareAndSwap(o, n) }
func AddUintptr(addr *uintptr, delta uintptr) uintptr { g(); return goatomic.AddUintptr(addr, delta) }
func LoadUintptr(addr *uintptr) uintptr               { g(); return goatomic.LoadUintptr(addr) }
func StoreUintptr(addr *uintptr, v uintptr)           { g(); goatomic.StoreUintptr(addr, v) }
func SwapUintptr(addr *uintptr, v uintptr) uintptr    { g(); return goatomic.SwapUintptr(addr, v) }
func CompareAndSwapUintptr(addr *uintptr, o, n uintptr) bool {
	g()
	return goatomic.CompareAndSwapUintptr(addr, o, n)
}
func LoadPointer(addr *unsafe.Pointer) unsafe.Pointer     { g(); return goatomic.LoadPointer(addr) }
func StorePointer(addr *unsafe.Pointer, v unsafe.Pointer) { g(); goatomic.StorePointer(addr, v) }

type Bool struct{ v goatomic.Bool }

func (x *Bool) Load() bool                    { g(); return x.v.Load() }
func (x *Bool) Store(v bool)                  { g(); x.v.Store(v) }
func (x *Bool) Swap(v bool) bool              { g(); return x.v.Swap(v) }
func (x *Bool) CompareAndSwap(o, n bool) bool { g(); return x.v.CompareAndSwap(o, n) }

type Value struct{ v goatomic.Value }

func (x *Value) Load() any   { g(); return x.v.Load() }
func (x *Value) Store(v any) { g(); x.v.Store(v) }

type Pointer[T any] struct{ v goatomic.Pointer[T] }

func (x *Pointer[T]) Load() *T                    { g(); return x.v.Load() }
func (x *Pointer[T]) Store(v *T)                  { g(); x.v.Store(v) }
func (x *Pointer[T]) Swap(v *T) *T                { g(); return x.v.Swap(v) }
func (x *Pointer[T]) CompareAndSwap(o, n *T) bool { g(); return x.v.CompareAndSwap(o, n) }
func CompareAndSwapPointer(addr *unsafe.Pointer, o, n unsafe.Pointer) bool {
	g()
	return goatomic.CompareAndSwapPointer(addr, o, n)
}
func SwapPointer(addr *unsafe.Pointer, n unsafe.Pointer) unsafe.Pointer {
	g()
	return goatomic.SwapPointer(addr, n)
}
func (x *Value) Swap(v any) any               { g(); return x.v.Swap(v) }
func (x *Value) CompareAndSwap(o, n any) bool { g(); return x.v.CompareAndSwap(o, n) }
func (x *Int32) And(m int32) int32            { g(); return x.v.And(m) }
func (x *Int32) Or(m int32) int32             { g(); return x.v.Or(m) }
func (x *Uint32) And(m uint32) uint32         { g(); return x.v.And(m) }
func (x *Uint32) Or(m uint32) uint32          { g(); return x.v.Or(m) }

type Uintptr struct{ v goatomic.Uintptr }

func (x *Uintptr) Load() uintptr                    { g(); return x.v.Load() }
func (x *Uintptr) Store(v uintptr)                  { g(); x.v.Store(v) }
func (x *Uintptr) Add(d uintptr) uintptr            { g(); return x.v.Add(d) }
func (x *Uintptr) Swap(v uintptr) uintptr           { g(); return x.v.Swap(v) }
func (x *Uintptr) CompareAndSwap(o, n uintptr) bool { g(); return x.v.CompareAndSwap(o, n) }
