package main

import (
	"sort"
	"strings"
)

// parseRaces extracts data race reports from the output of a -race harness
// process and returns the signatures of those in which both racing accesses
// are made by the code under test (the first frame outside the standard
// library is a fasthttp or dependency function, not harness or simulator code).
func parseRaces(out string) (sigs []string, details []string, ignored int) {
	blocks := strings.Split(out, "WARNING: DATA RACE")
	seen := map[string]bool{}
	for _, b := range blocks[1:] {
		if i := strings.Index(b, "=================="); i >= 0 {
			b = b[:i]
		}
		lines := strings.Split(b, "\n")
		var accesses [][]string
		var cur []string
		inAccess := false
		for _, l := range lines {
			t := strings.TrimRight(l, " ")
			switch {
			case strings.Contains(t, " by goroutine ") && (strings.HasPrefix(t, "Read at") || strings.HasPrefix(t, "Write at") || strings.HasPrefix(t, "Previous read at") || strings.HasPrefix(t, "Previous write at") || strings.HasPrefix(t, "Atomic") || strings.HasPrefix(t, "Previous atomic")):
				if inAccess {
					accesses = append(accesses, cur)
				}
				cur, inAccess = nil, true
			case t == "":
				if inAccess {
					accesses = append(accesses, cur)
					cur, inAccess = nil, false
				}
			case inAccess && strings.HasPrefix(l, "  ") && !strings.HasPrefix(l, "      "):
				cur = append(cur, strings.TrimSpace(l))
			}
		}
		if inAccess {
			accesses = append(accesses, cur)
		}
		if len(accesses) < 2 {
			ignored++
			continue
		}
		var fns []string
		ok := true
		for _, fr := range accesses[:2] {
			fn := firstNonStd(fr)
			if fn == "" || strings.HasPrefix(fn, "verif/") {
				ok = false
				break
			}
			fn = strings.TrimPrefix(fn, "github.com/valyala/fasthttp.")
			fn = strings.TrimPrefix(fn, "github.com/valyala/")
			if i := strings.Index(fn, "("); i > 0 && !strings.HasPrefix(fn, "(") {
				// keep method receivers "(*T).M", drop the argument list "()"
			}
			fn = strings.TrimSuffix(fn, "()")
			fns = append(fns, fn)
		}
		if !ok {
			ignored++
			continue
		}
		sort.Strings(fns)
		sig := "race/" + strings.Join(fns, "~")
		if !seen[sig] {
			seen[sig] = true
			sigs = append(sigs, sig)
			d := b
			if len(d) > 2500 {
				d = d[:2500]
			}
			details = append(details, d)
		}
	}
	return
}

func firstNonStd(frames []string) string {
	for _, f := range frames {
		name := f
		if i := strings.Index(name, "("); i > 0 && !strings.HasPrefix(name, "(") {
			// function with args, e.g. pkg.Func() or pkg.(*T).M()
		}
		first := name
		if i := strings.Index(first, "/"); i >= 0 {
			first = first[:i]
		} else if i := strings.Index(first, "."); i >= 0 {
			first = first[:i]
		}
		// a dot in the first path element marks a non-standard import path;
		// "verif" is the simulator/harness module
		if strings.Contains(first, ".") || first == "verif" {
			return name
		}
	}
	return ""
}
