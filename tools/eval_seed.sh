#!/bin/bash
# eval_seed.sh <ID> <patch.diff> [quick|thorough] [secs]
# Runs the check for ID against a scratch worktree of /repo HEAD with the patch applied (VERIF_REPO), so /repo
# itself is never touched and several evaluations can run side by side. Prints signatures and EXIT=<rc>.
set -u
ID=$1; P=$2; TIER=${3:-quick}; SECS=${4:-}
WT=/tmp/wt/eval-$$-$RANDOM
git -C /repo worktree add -q --detach $WT ${BASE:-HEAD} || { echo "worktree failed"; exit 2; }
trap 'git -C /repo worktree remove --force $WT >/dev/null 2>&1' EXIT
git -C $WT apply $P || { echo "patch does not apply"; exit 2; }
cd /verif
if [ -n "$SECS" ]; then export VERIF_SECS=$SECS; fi
LOG=/tmp/eval-$ID-$$.log
VERIF_MAX_SIGS=1 VERIF_MIN_BUDGET=48 VERIF_REPO=$WT VERIF_EVIDENCE_DIR=/tmp/eval-evidence ./check $ID $TIER > $LOG 2>&1; rc=$?
grep -E "^VIOLATION|signature=|^$ID |verifctl:" $LOG | cut -c1-260
echo "EXIT=$rc"
rm -f $LOG
