// verifctl orchestrates the simulated checks: it rebuilds an instrumented copy
// of /repo's working tree (cached by tree hash), fans out one OS process per
// simulated run, aggregates results into evidence, minimises and confirms
// violations, and applies the known-findings list.
//
//	verifctl check <ID> <quick|thorough>
//	verifctl replay <ID> <file>
//	verifctl determinism [ids...]
//	verifctl build
package main

import (
	"bytes"
	"crypto/sha256"
	"encoding/hex"
	"encoding/json"
	"fmt"
	"io/fs"
	"os"
	"os/exec"
	"path/filepath"
	"regexp"
	"sort"
	"strconv"
	"strings"
	"sync"
	"syscall"
	"time"
)

const goBin = "/opt/veriftools/go1.26.8/bin"

// verifDir and repoDir are /verif and /repo; VERIF_DIR and VERIF_REPO override
// them for background sweeps that run from a snapshot (vp run --with-repo).
var (
	verifDir = envOr("VERIF_DIR", "/verif")
	repoDir  = envOr("VERIF_REPO", "/repo")
)

func envOr(name, def string) string {
	if v := os.Getenv(name); v != "" {
		return v
	}
	return def
}

func goEnv() []string {
	env := os.Environ()
	out := env[:0:0]
	for _, kv := range env {
		if strings.HasPrefix(kv, "GOFLAGS=") || strings.HasPrefix(kv, "GOPROXY=") || strings.HasPrefix(kv, "GOSUMDB=") ||
			strings.HasPrefix(kv, "GOTOOLCHAIN=") || strings.HasPrefix(kv, "PATH=") || strings.HasPrefix(kv, "GOMAXPROCS=") {
			continue
		}
		out = append(out, kv)
	}
	return append(out, "GOFLAGS=-mod=mod", "GOPROXY=off", "GOSUMDB=off", "GOTOOLCHAIN=local", "PATH="+goBin+":"+os.Getenv("PATH"))
}

func die(code int, format string, args ...any) {
	fmt.Fprintf(os.Stderr, "verifctl: "+format+"\n", args...)
	if tmpDir != "" {
		os.RemoveAll(tmpDir)
	}
	os.Exit(code)
}

// ---------- build ----------

func hashTree() string {
	h := sha256.New()
	add := func(root string, test bool) {
		var files []string
		filepath.WalkDir(root, func(p string, d fs.DirEntry, err error) error {
			if err != nil {
				return nil
			}
			if d.IsDir() {
				n := d.Name()
				if n == ".git" || n == "examples" || n == "testdata" || n == ".cache" || n == "bin" || n == "evidence" || n == "replays" || n == "seeded" {
					return filepath.SkipDir
				}
				return nil
			}
			n := d.Name()
			if strings.HasSuffix(n, ".go") || n == "go.mod" || n == "go.sum" {
				if !test && strings.HasSuffix(n, "_test.go") {
					return nil
				}
				files = append(files, p)
			}
			return nil
		})
		sort.Strings(files)
		for _, f := range files {
			b, _ := os.ReadFile(f)
			fmt.Fprintf(h, "%s %d\n", f, len(b))
			h.Write(b)
		}
	}
	add(repoDir, false)
	add(filepath.Join(verifDir, "simrt"), true)
	add(filepath.Join(verifDir, "siminst"), true)
	add(filepath.Join(verifDir, "harness"), true)
	return hex.EncodeToString(h.Sum(nil))[:20]
}

func run(dir string, name string, args ...string) error {
	cmd := exec.Command(name, args...)
	cmd.Dir = dir
	cmd.Env = goEnv()
	out, err := cmd.CombinedOutput()
	if err != nil {
		return fmt.Errorf("%s %s: %v\n%s", name, strings.Join(args, " "), err, out)
	}
	return nil
}

const bbpDir = "/root/go/pkg/mod/github.com/valyala/bytebufferpool@v1.0.0"

// ensureBuilt returns the path of the (plain or race) harness binary for the
// current tree, building it if the cache does not have it.
func ensureBuilt(race bool) string {
	hash := hashTree()
	cache := filepath.Join(verifDir, ".cache", hash)
	name := "sim.test"
	if race {
		name = "sim.race.test"
	}
	bin := filepath.Join(cache, name)
	if _, err := os.Stat(bin); err == nil {
		now := time.Now()
		os.Chtimes(cache, now, now) // least-recently-used eviction: a binary in use is never the oldest
		return bin
	}
	os.MkdirAll(filepath.Join(verifDir, ".cache"), 0o755)
	lock, err := os.OpenFile(filepath.Join(verifDir, ".cache", "lock"), os.O_CREATE|os.O_RDWR, 0o644)
	if err != nil {
		die(2, "lock: %v", err)
	}
	defer lock.Close()
	syscall.Flock(int(lock.Fd()), syscall.LOCK_EX)
	defer syscall.Flock(int(lock.Fd()), syscall.LOCK_UN)
	if _, err := os.Stat(bin); err == nil {
		return bin
	}
	t0 := time.Now()
	base := "/dev/shm"
	if _, err := os.Stat(base); err != nil {
		base = os.TempDir()
	}
	// a fixed path (builds are serialised by the lock above): the Go build cache can then
	// reuse every package whose instrumented sources did not change since the last build
	scratch := filepath.Join(base, fmt.Sprintf("verif-build-%d", os.Getuid()))
	// (the lock above is per copy of /verif; two copies - a snapshot under test and the
	// working copy - share this scratch path, so it has a lock of its own)
	if sl, err := os.OpenFile(scratch+".lock", os.O_CREATE|os.O_RDWR, 0o644); err == nil {
		defer sl.Close()
		syscall.Flock(int(sl.Fd()), syscall.LOCK_EX)
		defer syscall.Flock(int(sl.Fd()), syscall.LOCK_UN)
	}
	os.RemoveAll(scratch)
	if err := os.MkdirAll(scratch, 0o755); err != nil {
		die(2, "mkdir: %v", err)
	}
	defer os.RemoveAll(scratch)
	siminst := filepath.Join(scratch, "siminst")
	if err := run(filepath.Join(verifDir, "siminst"), "go", "build", "-o", siminst, "."); err != nil {
		die(2, "build siminst: %v", err)
	}
	if err := run(repoDir, siminst, repoDir, filepath.Join(scratch, "fasthttp")); err != nil {
		die(2, "instrumenting /repo failed (build error, not a violation): %v", err)
	}
	if err := run(bbpDir, siminst, bbpDir, filepath.Join(scratch, "bbp"), "."); err != nil {
		die(2, "instrumenting bytebufferpool: %v", err)
	}
	os.WriteFile(filepath.Join(scratch, "bbp", "go.mod"), []byte("module github.com/valyala/bytebufferpool\n\ngo 1.12\n"), 0o644)
	mod := fmt.Sprintf(`module verif/harness

go 1.25.0

require (
	github.com/valyala/fasthttp v0.0.0
	github.com/valyala/bytebufferpool v1.0.0
	verif/simrt v0.0.0
	github.com/anishathalye/porcupine v1.3.0
)

replace github.com/valyala/fasthttp => %s/fasthttp
replace github.com/valyala/bytebufferpool => %s/bbp
replace verif/simrt => %s/simrt
`, scratch, scratch, verifDir)
	os.WriteFile(filepath.Join(scratch, "go.mod"), []byte(mod), 0o644)
	sum, _ := os.ReadFile(filepath.Join(repoDir, "go.sum"))
	extra, _ := os.ReadFile(filepath.Join(verifDir, "harness", "extra.sum"))
	os.WriteFile(filepath.Join(scratch, "go.sum"), append(sum, extra...), 0o644)
	args := []string{"test", "-modfile=" + filepath.Join(scratch, "go.mod"), "-tags", "verif", "-c", "-o", filepath.Join(scratch, name)}
	if race {
		args = append(args, "-race")
	}
	args = append(args, ".")
	if err := run(filepath.Join(verifDir, "harness"), "go", args...); err != nil {
		die(2, "building the harness against the instrumented tree failed (build error, not a violation): %v", err)
	}
	os.MkdirAll(cache, 0o755)
	if err := exec.Command("cp", filepath.Join(scratch, name), bin+".tmp").Run(); err != nil {
		die(2, "cp: %v", err)
	}
	os.Rename(bin+".tmp", bin)
	ents, _ := os.ReadDir(filepath.Join(verifDir, ".cache"))
	type ent struct {
		name string
		t    time.Time
	}
	var dirs []ent
	for _, e := range ents {
		if e.IsDir() {
			if info, err := e.Info(); err == nil {
				dirs = append(dirs, ent{e.Name(), info.ModTime()})
			}
		}
	}
	sort.Slice(dirs, func(i, j int) bool { return dirs[i].t.After(dirs[j].t) })
	for i, d := range dirs {
		// keep the six most recently used entries, and nothing used in the last
		// half hour is removed (another check may be running its binary)
		if i >= 6 && d.name != hash && time.Since(d.t) > 30*time.Minute {
			os.RemoveAll(filepath.Join(verifDir, ".cache", d.name))
		}
	}
	fmt.Fprintf(os.Stderr, "verifctl: built %s in %.1fs (tree %s)\n", name, time.Since(t0).Seconds(), hash)
	return bin
}

// ---------- run results ----------

type RunResult struct {
	Prop       string         `json:"prop"`
	Seed       uint64         `json:"seed"`
	Verdict    string         `json:"verdict"`
	Sig        string         `json:"sig,omitempty"`
	Detail     string         `json:"detail,omitempty"`
	Inconcl    string         `json:"inconclusive,omitempty"`
	Steps      int            `json:"steps"`
	Switches   int            `json:"switches"`
	SimMs      int64          `json:"sim_ms"`
	LogHash    string         `json:"loghash"`
	ILSig      string         `json:"ilsig"`
	Strategy   string         `json:"strategy"`
	Oblig      int            `json:"oblig"`
	Nontrivial bool           `json:"nontrivial"`
	Faults     map[string]int `json:"faults,omitempty"`
	Probes     map[string]int `json:"probes,omitempty"`
	Known      []string       `json:"known,omitempty"`
	Sample     any            `json:"sample,omitempty"`
	WTape      []uint32       `json:"wtape,omitempty"`
	STape      []uint32       `json:"stape,omitempty"`
	WLen       int            `json:"wlen"`
	SLen       int            `json:"slen"`
	GOMAXPROCS int            `json:"gomaxprocs"`
	Trace      []string       `json:"trace,omitempty"`
	raw        string
}

type ReplayFile struct {
	Property   string   `json:"property"`
	Seed       uint64   `json:"seed"`
	Tier       string   `json:"tier"`
	Index      int      `json:"run_index"`
	GOMAXPROCS int      `json:"gomaxprocs"`
	WTape      []uint32 `json:"workload_tape"`
	STape      []uint32 `json:"schedule_tape"`
	Signature  string   `json:"signature"`
	Detail     string   `json:"detail,omitempty"`
	LogHash    string   `json:"event_log_hash,omitempty"`
	MinFrom    [2]int   `json:"minimised_from"`
	MinTo      [2]int   `json:"minimised_to"`
	Plan       any      `json:"plan,omitempty"`
	Trace      []string `json:"human_trace,omitempty"`
}

func gmpFor(seed uint64) int { return []int{1, 1, 2, 4}[seed%4] }

func knownPath() string { return filepath.Join(verifDir, "known_findings.json") }

// execRun runs one harness process.
var realGMP = "1"

func execRun(bin, prop string, seed uint64, tier string, replay string, gmp int, extra ...string) (*RunResult, error) {
	args := []string{"-test.run", "^TestSim$", "-test.timeout", "0", "-prop", prop, "-seed", strconv.FormatUint(seed, 10), "-tier", tier, "-known", knownPath()}
	if replay != "" {
		args = append(args, "-replay", replay)
	}
	rg := realGMP
	for _, e := range extra {
		if strings.HasPrefix(e, "ENV:GOMAXPROCS=") { // determinism self-test: vary the real GOMAXPROCS per repetition
			rg = strings.TrimPrefix(e, "ENV:GOMAXPROCS=")
		} else {
			args = append(args, e)
		}
	}
	cmd := exec.Command(bin, args...)
	cmd.Env = append(os.Environ(), "SIMRT_GOMAXPROCS="+strconv.Itoa(gmp), "GOMAXPROCS="+rg, "GORACE=halt_on_error=0 log_path=stdout", "TMPDIR="+runTmp())
	var out bytes.Buffer
	cmd.Stdout = &out
	cmd.Stderr = &out
	err := cmd.Run()
	s := out.String()
	i := strings.LastIndex(s, "RESULT ")
	if i < 0 {
		return nil, fmt.Errorf("no RESULT line (err=%v): %s", err, tail(s, 2000))
	}
	line := s[i+len("RESULT "):]
	if j := strings.IndexByte(line, '\n'); j >= 0 {
		line = line[:j]
	}
	var r RunResult
	if e := json.Unmarshal([]byte(line), &r); e != nil {
		return nil, fmt.Errorf("bad RESULT line: %v: %s", e, tail(line, 500))
	}
	r.raw = s[:i]
	if strings.HasSuffix(bin, "sim.race.test") && strings.Contains(s, "WARNING: DATA RACE") {
		sigs, details, _ := parseRaces(s)
		known := map[string]bool{}
		for _, f := range loadFindings() {
			if f.Property == prop && f.Status == "known" {
				known[f.Signature] = true
			}
		}
		for k, sg := range sigs {
			full := prop + "/" + sg
			if known[full] {
				r.Known = append(r.Known, full)
				continue
			}
			if r.Verdict == "ok" || r.Verdict == "inconclusive" {
				r.Verdict, r.Sig, r.Detail = "violation", full, "the race detector reported:\n"+details[k]
			}
		}
	}
	return &r, nil
}

var tmpOnce sync.Once
var tmpDir string

func runTmp() string {
	tmpOnce.Do(func() {
		base := "/dev/shm"
		if _, err := os.Stat(base); err != nil {
			base = os.TempDir()
		}
		tmpDir, _ = os.MkdirTemp(base, "verif-run-")
	})
	return tmpDir
}

func tail(s string, n int) string {
	if len(s) > n {
		return "…" + s[len(s)-n:]
	}
	return s
}

// ---------- known findings ----------

type Finding struct {
	Property  string `json:"property"`
	Signature string `json:"signature"`
	What      string `json:"what_fails"`
	Status    string `json:"status"` // known | fixed
	Commit    string `json:"commit,omitempty"`
}

func loadFindings() []Finding {
	b, err := os.ReadFile(knownPath())
	if err != nil {
		return nil
	}
	var fs []Finding
	if err := json.Unmarshal(b, &fs); err != nil {
		die(2, "known_findings.json: %v", err)
	}
	return fs
}

// ---------- check ----------

type propCfg struct {
	QuickSecs, ThoroughSecs int
	Race                    bool
	Level                   string
	MaxRuns                 int
}

var propCfgs = map[string]propCfg{
	"C19": {Level: "fault_enumeration"},
	"C37": {Race: true, QuickSecs: 40},
}

func cfgFor(id string) propCfg {
	c := propCfgs[id]
	if c.QuickSecs == 0 {
		c.QuickSecs = 22
	}
	if c.ThoroughSecs == 0 {
		c.ThoroughSecs = 600
	}
	if c.Level == "" {
		c.Level = "exploration"
	}
	return c
}

func envInt(name string, def int) int {
	if v, err := strconv.Atoi(os.Getenv(name)); err == nil {
		return v
	}
	return def
}

type agg struct {
	mu          sync.Mutex
	evals       int
	verdicts    map[string]int
	ilsigs      map[string]bool
	ilonly      map[string]bool
	faults      map[string]int
	probes      map[string]int
	strategies  map[string]int
	inconcl     map[string]int
	known       map[string]int
	steps       int64
	simMs       int64
	oblig       int64
	samples     []any
	violations  map[string]*RunResult // by signature: lowest-index instance
	violIdx     map[string]int
	errors      []string
	gmp         map[int]int
	nontrivial  int
	maxSwitches int
}

func sanitize(s string) string {
	return regexp.MustCompile(`[^A-Za-z0-9_.-]+`).ReplaceAllString(s, "_")
}

func check(id, tier string) int {
	t0 := time.Now()
	pc := cfgFor(id)
	bin := ensureBuilt(pc.Race)
	base := uint64(envInt("VERIF_SEED", 1))
	secs := pc.QuickSecs
	if tier == "thorough" {
		secs = pc.ThoroughSecs
	}
	secs = envInt("VERIF_SECS", secs)
	maxRuns := envInt("VERIF_RUNS", 0)
	workers := envInt("VERIF_WORKERS", 16)
	deadline := time.Now().Add(time.Duration(secs) * time.Second)
	a := &agg{verdicts: map[string]int{}, ilsigs: map[string]bool{}, ilonly: map[string]bool{}, faults: map[string]int{}, probes: map[string]int{}, strategies: map[string]int{},
		inconcl: map[string]int{}, known: map[string]int{}, violations: map[string]*RunResult{}, violIdx: map[string]int{}, gmp: map[int]int{}}
	var next int
	var nmu sync.Mutex
	stop := false
	var wg sync.WaitGroup
	for w := 0; w < workers; w++ {
		wg.Add(1)
		go func() {
			defer wg.Done()
			for {
				nmu.Lock()
				if stop || time.Now().After(deadline) || (maxRuns > 0 && next >= maxRuns) {
					nmu.Unlock()
					return
				}
				i := next
				next++
				nmu.Unlock()
				seed := mix(base, uint64(i))
				extra := []string{"-index", strconv.Itoa(i)}
				if pc.Race {
					extra = append(extra, "-tapes") // race reports are found in the output: keep the tapes for replay
				}
				r, err := execRun(bin, id, seed, tier, "", gmpFor(seed), extra...)
				a.mu.Lock()
				a.evals++
				if err != nil {
					a.errors = append(a.errors, fmt.Sprintf("seed %d: %v", seed, err))
					a.mu.Unlock()
					continue
				}
				a.verdicts[r.Verdict]++
				a.gmp[r.GOMAXPROCS]++
				a.steps += int64(r.Steps)
				a.simMs += r.SimMs
				a.oblig += int64(r.Oblig)
				a.strategies[r.Strategy]++
				for k, v := range r.Faults {
					a.faults[k] += v
				}
				for k, v := range r.Probes {
					a.probes[k] += v
				}
				for _, k := range r.Known {
					a.known[k]++
				}
				if r.Switches > a.maxSwitches {
					a.maxSwitches = r.Switches
				}
				switch r.Verdict {
				case "ok", "violation":
					if r.Nontrivial {
						a.nontrivial++
						a.ilsigs[r.ILSig] = true
						a.ilonly[strings.SplitN(r.ILSig, "-", 2)[0]] = true
					}
				case "inconclusive":
					a.inconcl[firstWords(r.Inconcl, 6)]++
				case "error":
					if r.Detail == "wall-clock watchdog" {
						// a run that did not finish within its real-time allowance (an overloaded
						// machine, a slow race build): counted with the unfinished runs, which are
						// tolerated up to 2 % of a batch and are harness trouble (exit 2) beyond
						a.inconcl["run did not finish (wall-clock watchdog)"]++
						break
					}
					a.errors = append(a.errors, fmt.Sprintf("seed %d: %s", seed, tail(r.Detail, 1500)))
				}
				if r.Verdict == "violation" {
					if old, ok := a.violIdx[r.Sig]; !ok || i < old {
						a.violIdx[r.Sig] = i
						a.violations[r.Sig] = r
					}
				}
				if len(a.samples) < 3 && r.Sample != nil && r.Nontrivial {
					a.samples = append(a.samples, map[string]any{"seed": r.Seed, "strategy": r.Strategy, "steps": r.Steps, "switches": r.Switches, "sim_ms": r.SimMs, "faults": r.Faults, "verdict": r.Verdict, "plan": r.Sample})
				}
				a.mu.Unlock()
			}
		}()
	}
	wg.Wait()
	runWall := time.Since(t0).Seconds()

	// harness trouble is exit 2, never a violation
	if len(a.errors) > 0 {
		for i, e := range a.errors {
			if i < 5 {
				fmt.Fprintf(os.Stderr, "verifctl: harness error: %s\n", e)
			}
		}
		writeEvidence(id, tier, base, pc, a, runWall, 0, nil)
		die(2, "%d of %d runs failed for harness reasons", len(a.errors), a.evals)
	}
	unfinished := 0
	for k, v := range a.inconcl {
		if strings.HasPrefix(k, "run did not finish") {
			unfinished += v
		}
	}
	if unfinished*50 > a.evals {
		writeEvidence(id, tier, base, pc, a, runWall, 0, nil)
		die(2, "%d of %d runs did not finish (stuck or step limit): harness trouble, not a verdict", unfinished, a.evals)
	}

	// violations
	exit := 0
	var sigs []string
	for s := range a.violations {
		sigs = append(sigs, s)
	}
	sort.Strings(sigs)
	var reported []string
	unconfirmed := 0
	maxSigs := envInt("VERIF_MAX_SIGS", 0) // evaluations of seeded changes: minimise and confirm only the first signatures
	for _, sig := range sigs {
		r := a.violations[sig]
		if maxSigs > 0 && len(reported) >= maxSigs {
			fmt.Printf("  signature=%s seed=%d (also seen; not minimised: VERIF_MAX_SIGS=%d)\n", sig, r.Seed, maxSigs)
			continue
		}
		path, ok := minimiseAndConfirm(bin, id, tier, r, a.violIdx[sig])
		if !ok {
			// never print an alarm that does not replay; it only becomes a
			// harness failure (exit 2) if nothing else was confirmed
			fmt.Fprintf(os.Stderr, "verifctl: violation %s (seed %d) did not reproduce from its replay file: not reported\n", sig, r.Seed)
			unconfirmed++
			continue
		}
		fmt.Printf("VIOLATION property=%s replay=%s\n", id, path)
		fmt.Printf("  signature=%s seed=%d detail=%s\n", sig, r.Seed, tail(r.Detail, 600))
		reported = append(reported, sig)
		exit = 1
	}
	if unconfirmed > 0 && len(reported) == 0 {
		writeEvidence(id, tier, base, pc, a, time.Since(t0).Seconds(), 0, nil)
		die(2, "%d violation signature(s) did not reproduce from their replay files and none did: harness defect", unconfirmed)
	}
	// known findings that were hit
	for _, f := range loadFindings() {
		if f.Property == id && f.Status == "known" && a.known[f.Signature] > 0 {
			fmt.Printf("KNOWN-FINDING: property=%s %s [%s, %d runs]\n", id, f.What, f.Signature, a.known[f.Signature])
		}
	}
	writeEvidence(id, tier, base, pc, a, time.Since(t0).Seconds(), len(reported), reported)
	fmt.Printf("%s %s: %d runs, %d nontrivial, %d distinct (plan,interleaving), %d distinct interleavings, verdicts=%v, %.1fs\n", id, tier, a.evals, a.nontrivial, len(a.ilsigs), len(a.ilonly), a.verdicts, time.Since(t0).Seconds())
	return exit
}

func firstWords(s string, n int) string {
	f := strings.Fields(s)
	if len(f) > n {
		f = f[:n]
	}
	return strings.Join(f, " ")
}

func splitmix(x *uint64) uint64 {
	*x += 0x9e3779b97f4a7c15
	z := *x
	z = (z ^ (z >> 30)) * 0xbf58476d1ce4e5b9
	z = (z ^ (z >> 27)) * 0x94d049bb133111eb
	return z ^ (z >> 31)
}

func mix(seed, i uint64) uint64 {
	x := seed ^ (i+1)*0xd6e8feb86659fd93
	splitmix(&x)
	return splitmix(&x) >> 1 // keep it positive in int64 contexts
}

// ---------- evidence ----------

var components = map[string]any{
	"real": []string{"every line of fasthttp under test (instrumented copy of the working tree: sync/atomic/channel/select/go statements routed through the scheduler, nothing else changed)", "bufio, mime/multipart, compress/*, brotli, klauspost/compress, crypto/tls, net/http (as oracle parser)", "valyala/bytebufferpool (instrumented)"},
	"stub": []string{"goroutine scheduler (verif/simrt driver inside a testing/synctest bubble)", "clock and timers (synctest fake clock)", "sockets, listeners, dialing (verif/simrt/simnet)", "sync.Pool retention policy", "map iteration order and select tie-breaking", "runtime.GOMAXPROCS (per-run knob)"},
}

func writeEvidence(id, tier string, seed uint64, pc propCfg, a *agg, wall float64, nviol int, sigs []string) {
	hours := wall / 3600
	if hours <= 0 {
		hours = 1e-9
	}
	samples := a.samples
	if len(samples) == 0 {
		samples = []any{"no non-trivial run produced a sample"}
	}
	cov := map[string]any{
		"evaluations":         a.evals,
		"distinct_nontrivial": len(a.ilsigs),
		"distinct_interleavings": len(a.ilonly),
		"rule": "one evaluation = one simulated run in a fresh OS process (seed_i = mix(VERIF_SEED, i); workload, configuration, fault plan and every scheduling decision drawn from it). " +
			"A run is non-trivial when its scenario marks it so (the system under test did real work and the oracle discharged at least one obligation); " +
			"two runs are distinct when their (workload, interleaving) signatures differ: the hash of the generated plan (workload tape) paired with the hash of the (task spawn site, operation kind) sequence at every context switch the scheduler made.",
		"samples":             samples,
		"nontrivial_runs":     a.nontrivial,
		"runs_per_hour":       int(float64(a.evals) / hours),
		"seeds":               map[string]any{"base": seed, "derivation": "mix(base, i) for i in [0, evaluations)"},
		"sim_time_s":          float64(a.simMs) / 1000,
		"steps":               a.steps,
		"max_context_switches_in_a_run": a.maxSwitches,
		"faults_fired":        a.faults,
		"probes":              a.probes,
		"strategies":          a.strategies,
		"oracle_obligations":  a.oblig,
		"verdicts":            a.verdicts,
		"inconclusive":        a.inconcl,
		"known_findings_hit":  a.known,
		"simulated_gomaxprocs": a.gmp,
		"components":          components,
		"race_detector":       pc.Race,
		"harness_errors":      len(a.errors),
	}
	if len(sigs) > 0 {
		cov["violation_signatures"] = sigs
	}
	ev := map[string]any{
		"property_id": id,
		"tier":        tier,
		"seed":        seed,
		"level":       pc.Level,
		"coverage":    cov,
		"assumptions": []string{
			"sampling, not enumeration: a clean batch is evidence proportional to the reach counters above",
			"code below the substituted seams (kernel sockets, real DNS, real files where simfs is used, real child processes) is not exercised",
			"uninstrumented libraries (std, compression, TLS) run as atomic steps",
		},
		"wall_s":     wall,
		"violations": nviol,
	}
	b, _ := json.MarshalIndent(ev, "", " ")
	// VERIF_EVIDENCE_DIR: evaluations of seeded changes write their evidence elsewhere
	evDir := envOr("VERIF_EVIDENCE_DIR", filepath.Join(verifDir, "evidence"))
	os.MkdirAll(evDir, 0o755)
	os.WriteFile(filepath.Join(evDir, id+".json"), append(b, '\n'), 0o644)
}

// ---------- minimisation and replay ----------

func writeReplay(path string, rf *ReplayFile) {
	b, _ := json.Marshal(rf)
	os.WriteFile(path, b, 0o644)
}

// tryTapes runs a candidate and reports whether it shows the same signature.
func tryTapes(bin string, rf ReplayFile, w, s []uint32, scratch string, n int) (*RunResult, bool) {
	rf.WTape, rf.STape = w, s
	p := filepath.Join(scratch, fmt.Sprintf("cand-%d.json", n))
	writeReplay(p, &rf)
	defer os.Remove(p)
	r, err := execRun(bin, rf.Property, rf.Seed, rf.Tier, p, rf.GOMAXPROCS)
	if err != nil || r.Verdict != "violation" || r.Sig != rf.Signature {
		return r, false
	}
	return r, true
}

func minimiseAndConfirm(bin, id, tier string, r *RunResult, idx int) (string, bool) {
	scratch := runTmp()
	rf := ReplayFile{Property: id, Seed: r.Seed, Tier: tier, Index: idx, GOMAXPROCS: r.GOMAXPROCS, Signature: r.Sig, Detail: r.Detail}
	w, s := r.WTape, r.STape
	rf.MinFrom = [2]int{len(w), len(s)}
	budget := envInt("VERIF_MIN_BUDGET", 320)
	deadline := time.Now().Add(90 * time.Second)
	n := 0
	// evaluate a batch of candidates in parallel; return index of first success
	type cand struct{ w, s []uint32 }
	evalBatch := func(cs []cand) int {
		if len(cs) == 0 {
			return -1
		}
		res := make([]bool, len(cs))
		var wg sync.WaitGroup
		for i := range cs {
			wg.Add(1)
			n++
			go func(i, n int) {
				defer wg.Done()
				_, ok := tryTapes(bin, rf, cs[i].w, cs[i].s, scratch, n)
				res[i] = ok
			}(i, n)
		}
		wg.Wait()
		for i, ok := range res {
			if ok {
				return i
			}
		}
		return -1
	}
	ok := func() bool { return n < budget && time.Now().Before(deadline) }
	// first make sure the original reproduces at all
	// (three attempts: a defect that makes two tasks share memory without synchronisation
	// makes the execution itself racy between two scheduling points; such a violation
	// reproduces often, not always)
	reproduced := false
	for attempt := 0; attempt < 3 && !reproduced; attempt++ {
		_, reproduced = tryTapes(bin, rf, w, s, scratch, 0)
	}
	if !reproduced {
		return "", false
	}
	cut := func(t []uint32, i, j int) []uint32 {
		out := append([]uint32(nil), t[:i]...)
		return append(out, t[j:]...)
	}
	zero := func(t []uint32, i, j int) []uint32 {
		out := append([]uint32(nil), t...)
		for k := i; k < j && k < len(out); k++ {
			out[k] = 0
		}
		return out
	}
	nonzero := func(t []uint32, i, j int) bool {
		for k := i; k < j && k < len(t); k++ {
			if t[k] != 0 {
				return true
			}
		}
		return false
	}
	// 1. schedule tape: truncate (tail becomes "keep running the current task")
	for ok() {
		var cs []cand
		var lens []int
		for _, f := range []int{0, 1, 2, 3, 4, 5, 6, 7} {
			l := len(s) * f / 8
			if l < len(s) {
				cs = append(cs, cand{w, s[:l]})
				lens = append(lens, l)
			}
		}
		i := evalBatch(cs)
		if i < 0 {
			break
		}
		s = s[:lens[i]]
		if len(s) == 0 {
			break
		}
	}
	// 2. workload tape: delete chunks, then zero chunks; schedule tape: zero chunks
	for pass := 0; pass < 3 && ok(); pass++ {
		changed := false
		for size := len(w) / 2; size >= 1 && ok(); size /= 2 {
			for i := 0; i+size <= len(w) && ok(); {
				var cs []cand
				var at []int
				for k := 0; k < 16 && i+k*size+size <= len(w); k++ {
					cs = append(cs, cand{cut(w, i+k*size, i+k*size+size), s})
					at = append(at, i+k*size)
				}
				j := evalBatch(cs)
				if j < 0 {
					i += 16 * size
					continue
				}
				w = cs[j].w
				i = at[j]
				changed = true
			}
		}
		for _, which := range []int{0, 1} {
			t := w
			if which == 1 {
				t = s
			}
			for size := (len(t) + 1) / 2; size >= 1 && ok(); size /= 2 {
				for i := 0; i < len(t) && ok(); {
					var cs []cand
					var at []int
					for k := 0; len(cs) < 16 && i+k*size < len(t); k++ {
						lo, hi := i+k*size, i+k*size+size
						if !nonzero(t, lo, hi) {
							continue
						}
						if which == 0 {
							cs = append(cs, cand{zero(t, lo, hi), s})
						} else {
							cs = append(cs, cand{w, zero(t, lo, hi)})
						}
						at = append(at, lo)
						if hi >= len(t) {
							break
						}
					}
					if len(cs) == 0 {
						i += 16 * size
						continue
					}
					j := evalBatch(cs)
					if j < 0 {
						i = at[len(at)-1] + size
						continue
					}
					if which == 0 {
						w = cs[j].w
						t = w
					} else {
						s = cs[j].s
						t = s
					}
					i = at[j] + size
					changed = true
				}
			}
		}
		if !changed {
			break
		}
	}
	// trim trailing zeros (equivalent by construction)
	for len(w) > 0 && w[len(w)-1] == 0 {
		w = w[:len(w)-1]
	}
	for len(s) > 0 && s[len(s)-1] == 0 {
		s = s[:len(s)-1]
	}
	rf.WTape, rf.STape = w, s
	rf.MinTo = [2]int{len(w), len(s)}
	// final: run with trace, record hash, confirm twice in fresh processes
	os.MkdirAll(filepath.Join(verifDir, "replays"), 0o755)
	path := filepath.Join(verifDir, "replays", fmt.Sprintf("%s-%s-%d.json", id, sanitize(strings.TrimPrefix(r.Sig, id+"/")), r.Seed))
	writeReplay(path, &rf)
	r1, err := execRun(bin, id, rf.Seed, tier, path, rf.GOMAXPROCS, "-trace")
	if err != nil || r1.Verdict != "violation" || r1.Sig != rf.Signature {
		return path, false
	}
	rf.LogHash, rf.Detail, rf.Plan, rf.Trace = r1.LogHash, r1.Detail, r1.Sample, r1.Trace
	writeReplay(path, &rf)
	r2, err := execRun(bin, id, rf.Seed, tier, path, rf.GOMAXPROCS)
	if err != nil || r2.Verdict != "violation" || r2.Sig != rf.Signature || r2.LogHash != r1.LogHash {
		return path, false
	}
	fmt.Fprintf(os.Stderr, "verifctl: minimised %s from (w=%d,s=%d) to (w=%d,s=%d) draws in %d candidate runs\n", r.Sig, rf.MinFrom[0], rf.MinFrom[1], rf.MinTo[0], rf.MinTo[1], n)
	return path, true
}

func replay(id, path string) int {
	b, err := os.ReadFile(path)
	if err != nil {
		die(2, "%v", err)
	}
	var rf ReplayFile
	if err := json.Unmarshal(b, &rf); err != nil {
		die(2, "%v", err)
	}
	if id == "" {
		id = rf.Property
	}
	bin := ensureBuilt(cfgFor(id).Race)
	gmp := rf.GOMAXPROCS
	if gmp == 0 {
		gmp = 1
	}
	r, err := execRun(bin, id, rf.Seed, rf.Tier, path, gmp, "-trace")
	if err != nil {
		die(2, "%v", err)
	}
	for _, l := range r.Trace {
		fmt.Println(l)
	}
	if r.raw != "" {
		fmt.Print(r.raw)
	}
	fmt.Printf("verdict=%s sig=%s loghash=%s detail=%s\n", r.Verdict, r.Sig, r.LogHash, r.Detail)
	if r.Verdict == "violation" {
		if rf.Signature != "" && r.Sig == rf.Signature && (rf.LogHash == "" || rf.LogHash == r.LogHash) {
			fmt.Printf("VIOLATION property=%s replay=%s\n", id, path)
			fmt.Println("replay reproduced the recorded violation exactly (same signature, same event-log hash)")
		} else {
			fmt.Printf("VIOLATION property=%s replay=%s\n", id, path)
			fmt.Printf("note: recorded signature=%s hash=%s\n", rf.Signature, rf.LogHash)
		}
		return 1
	}
	return 0
}

// ---------- determinism self-test ----------

func determinism(ids []string, seeds, reps int) int {
	bad := 0
	realGMP = os.Getenv("VERIF_REAL_GOMAXPROCS")
	if realGMP == "" {
		realGMP = "1"
	}
	for _, id := range ids {
		bin := ensureBuilt(false)
		res := map[uint64]map[string]int{}
		var mu sync.Mutex
		var wg sync.WaitGroup
		sem := make(chan struct{}, 16)
		for i := 0; i < seeds; i++ {
			seed := mix(7777, uint64(i))
			for rep := 0; rep < reps; rep++ {
				wg.Add(1)
				sem <- struct{}{}
				go func(seed uint64, rep int) {
					defer wg.Done()
					defer func() { <-sem }()
					// repetitions of one seed run under different real GOMAXPROCS values (1, 4, 16, ...)
					rg := []string{"1", "4", "16", "2"}[rep%4]
					if os.Getenv("VERIF_REAL_GOMAXPROCS") != "" {
						rg = realGMP
					}
					r, err := execRun(bin, id, seed, "quick", "", gmpFor(seed), "ENV:GOMAXPROCS="+rg)
					key := "ERR"
					if err == nil {
						key = r.LogHash + "/" + r.Verdict + "/" + r.Sig + "/" + strconv.Itoa(r.Steps)
					} else {
						key = "ERR " + firstWords(err.Error(), 8)
					}
					mu.Lock()
					if res[seed] == nil {
						res[seed] = map[string]int{}
					}
					res[seed][key]++
					mu.Unlock()
				}(seed, rep)
			}
		}
		wg.Wait()
		nd := 0
		for seed, m := range res {
			if len(m) != 1 {
				nd++
				fmt.Printf("NONDETERMINISTIC %s seed=%d outcomes=%v\n", id, seed, m)
			}
			for k := range m {
				if strings.HasPrefix(k, "ERR") {
					nd++
					fmt.Printf("ERROR %s seed=%d %s\n", id, seed, k)
				}
			}
		}
		fmt.Printf("determinism %s: %d seeds x %d processes, %d nondeterministic\n", id, seeds, reps, nd)
		bad += nd
	}
	if bad > 0 {
		return 2
	}
	return 0
}

func main() {
	if len(os.Args) < 2 {
		die(2, "usage: verifctl check <ID> <quick|thorough> | replay <ID> <file> | determinism [ids] | build [race]")
	}
	defer func() {
		if tmpDir != "" {
			os.RemoveAll(tmpDir)
		}
	}()
	code := 0
	switch os.Args[1] {
	case "build":
		fmt.Println(ensureBuilt(len(os.Args) > 2 && os.Args[2] == "race"))
	case "check":
		if len(os.Args) < 4 {
			die(2, "usage: verifctl check <ID> <quick|thorough>")
		}
		code = check(os.Args[2], os.Args[3])
	case "replay":
		if len(os.Args) < 4 {
			die(2, "usage: verifctl replay <ID> <file>")
		}
		code = replay(os.Args[2], os.Args[3])
	case "determinism":
		ids := os.Args[2:]
		code = determinism(ids, envInt("VERIF_DET_SEEDS", 30), envInt("VERIF_DET_REPS", 4))
	default:
		die(2, "unknown command %s", os.Args[1])
	}
	if tmpDir != "" {
		os.RemoveAll(tmpDir)
	}
	os.Exit(code)
}
