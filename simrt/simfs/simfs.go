// Package simfs stands in for the os file functions used by fasthttp's fs.go
// (substituted by the instrumenter). Calls go to the real filesystem below a
// per-run scratch directory, but every path-taking operation is recorded and
// every handle is accounted for (reads, closes, read-after-close), and faults
// (I/O errors, short reads, permission errors) can be injected.
package simfs

import (
	"io"
	"io/fs"
	"os"
	"path/filepath"
	"sync"
	"syscall"
	"time"

	"verif/simrt"
)

type Op struct {
	Kind string // open stat mkdirall createtemp remove chtimes rename
	Path string // cleaned absolute path
	Err  bool
	Step int
}

type Handle struct {
	ID             int
	Path           string
	Reads          int
	Closes         int
	ReadAfterClose int
	Created        bool
}

var (
	mu      sync.Mutex
	Ops     []Op
	Handles []*Handle
	// Faults
	FailOpen      func(path string) error
	FailRead      func(h *Handle, off int64) error
	ShortRead     func(n int) int
	FailCreate    func(dir string) error
	FailSeek      func(h *Handle, off int64, whence int) error
)

//go:norace
func rec(kind, path string, err error) {
	abs, e := filepath.Abs(path)
	if e != nil {
		abs = path
	}
	simrt.RaceOff()
	mu.Lock()
	Ops = append(Ops, Op{kind, filepath.Clean(abs), err != nil, simrt.Step()})
	mu.Unlock()
	simrt.RaceOn()
}

//go:norace
func Snapshot() ([]Op, []Handle) {
	simrt.RaceOff()
	mu.Lock()
	ops := append([]Op(nil), Ops...)
	hs := make([]Handle, len(Handles))
	for i, h := range Handles {
		hs[i] = *h
	}
	mu.Unlock()
	simrt.RaceOn()
	return ops, hs
}

// File wraps *os.File with accounting.
type File struct {
	f *os.File
	h *Handle
}

//go:norace
func newFile(f *os.File, path string, created bool) *File {
	simrt.RaceOff()
	mu.Lock()
	h := &Handle{ID: len(Handles), Path: path, Created: created}
	Handles = append(Handles, h)
	mu.Unlock()
	simrt.RaceOn()
	return &File{f: f, h: h}
}

//go:norace
func (f *File) note(read bool) (closed bool) {
	simrt.RaceOff()
	mu.Lock()
	if read {
		f.h.Reads++
		if f.h.Closes > 0 {
			f.h.ReadAfterClose++
		}
	} else {
		f.h.Closes++
	}
	closed = f.h.Closes > 0
	mu.Unlock()
	simrt.RaceOn()
	return
}

func (f *File) Read(p []byte) (int, error) {
	simrt.Gate("fs.read", nil)
	f.note(true)
	if FailRead != nil {
		off, _ := f.f.Seek(0, io.SeekCurrent)
		if err := FailRead(f.h, off); err != nil {
			return 0, err
		}
	}
	if ShortRead != nil && len(p) > 1 {
		p = p[:ShortRead(len(p))]
	}
	return f.f.Read(p)
}

func (f *File) ReadAt(p []byte, off int64) (int, error) {
	simrt.Gate("fs.readat", nil)
	f.note(true)
	if FailRead != nil {
		if err := FailRead(f.h, off); err != nil {
			return 0, err
		}
	}
	return f.f.ReadAt(p, off)
}

func (f *File) Seek(off int64, whence int) (int64, error) {
	f.note(true)
	if FailSeek != nil {
		if err := FailSeek(f.h, off, whence); err != nil {
			return 0, err
		}
	}
	return f.f.Seek(off, whence)
}

func (f *File) Write(p []byte) (int, error) { return f.f.Write(p) }
func (f *File) Name() string                { return f.f.Name() }
func (f *File) Stat() (fs.FileInfo, error)  { return f.f.Stat() }
func (f *File) ReadDir(n int) ([]fs.DirEntry, error) { return f.f.ReadDir(n) }
func (f *File) Readdir(n int) ([]fs.FileInfo, error) { return f.f.Readdir(n) }

func (f *File) Close() error {
	simrt.Gate("fs.close", nil)
	f.note(false)
	return f.f.Close()
}

func Open(path string) (*File, error) {
	simrt.Gate("fs.open", nil)
	if FailOpen != nil {
		if err := FailOpen(path); err != nil {
			rec("open", path, err)
			return nil, &fs.PathError{Op: "open", Path: path, Err: err}
		}
	}
	f, err := os.Open(path)
	rec("open", path, err)
	if err != nil {
		return nil, err
	}
	return newFile(f, path, false), nil
}

func Stat(path string) (fs.FileInfo, error) {
	simrt.Gate("fs.stat", nil)
	fi, err := os.Stat(path)
	rec("stat", path, err)
	return fi, err
}

func MkdirAll(path string, perm os.FileMode) error {
	simrt.Gate("fs.mkdirall", nil)
	if FailCreate != nil {
		if err := FailCreate(path); err != nil {
			rec("mkdirall", path, err)
			return &fs.PathError{Op: "mkdir", Path: path, Err: err}
		}
	}
	err := os.MkdirAll(path, perm)
	rec("mkdirall", path, err)
	return err
}

func CreateTemp(dir, pattern string) (*File, error) {
	simrt.Gate("fs.createtemp", nil)
	if FailCreate != nil {
		if err := FailCreate(dir); err != nil {
			rec("createtemp", filepath.Join(dir, pattern), err)
			return nil, &fs.PathError{Op: "open", Path: dir, Err: err}
		}
	}
	f, err := os.CreateTemp(dir, pattern)
	if err != nil {
		rec("createtemp", filepath.Join(dir, pattern), err)
		return nil, err
	}
	rec("createtemp", f.Name(), nil)
	return newFile(f, f.Name(), true), nil
}

func Remove(path string) error {
	simrt.Gate("fs.remove", nil)
	err := os.Remove(path)
	rec("remove", path, err)
	return err
}

func Chtimes(path string, a, m time.Time) error {
	err := os.Chtimes(path, a, m)
	rec("chtimes", path, err)
	return err
}

func Rename(from, to string) error {
	simrt.Gate("fs.rename", nil)
	err := os.Rename(from, to)
	rec("rename", from, err)
	rec("rename", to, err)
	return err
}

var (
	EIO    error = syscall.EIO
	EACCES error = fs.ErrPermission
	ENOSPC error = syscall.ENOSPC
)
