#!/bin/bash
# reeval.sh <seed-dir-name e.g. C20b-1> [secs] : re-run the own-property quick check for one seeded change
# and store the output as that change's eval.txt (the previous one is kept as penultimate_eval.txt).
set -u
N=$1; SECS=${2:-30}
ID=${N%-*}; K=${N##*-}; PROP=${ID%b}
D=/tmp/seeds/$ID/$K
[ -d $D ] || { echo "no $D"; exit 2; }
OUT=$(mktemp)
/verif/tools/eval_seed.sh $PROP /verif/seeded/$N/patch.diff quick $SECS > $OUT 2>&1
[ -f $D/eval.txt ] && cp $D/eval.txt $D/penultimate_eval.txt
mv $OUT $D/eval.txt
echo "== $N"; grep -E "quick:|EXIT=" $D/eval.txt | cut -c1-220
