#!/bin/bash
# eval_seed.sh <ID> <patch.diff> [quick|thorough] [secs]  : run the check for ID against /repo with the patch applied
set -u
ID=$1; P=$2; TIER=${3:-quick}; SECS=${4:-}
cd /repo && git diff --quiet || { echo "repo dirty"; exit 2; }
git apply $P || { echo "patch does not apply"; exit 2; }
cd /verif
if [ -n "$SECS" ]; then export VERIF_SECS=$SECS; fi
./check $ID $TIER > /tmp/eval-$ID.log 2>&1; rc=$?
git -C /repo checkout -- . ; git -C /repo clean -fdq
grep -E "^VIOLATION|signature=|^$ID " /tmp/eval-$ID.log | cut -c1-260
echo "EXIT=$rc"
