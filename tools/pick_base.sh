#!/bin/bash
# pick_base.sh <patch> : prints the newest commit of /repo the patch applies to (HEAD first, then the commits at which
# seeded changes were written). Later repairs may have touched the lines a seeded change edits.
for B in HEAD 3575ab4 25b5dde 6080f6c d7e20d3 ad70f1c 458a2b8 3902211; do
  T=$(mktemp -d /tmp/pb-XXXXXX); git -C /repo archive $B | tar -x -C $T
  if (cd $T && git apply --check $1 2>/dev/null); then rm -rf $T; echo $B; exit 0; fi
  rm -rf $T
done
echo NONE
