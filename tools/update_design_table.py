#!/usr/bin/env python3
"""Regenerates seeded/*/meta.json (tools/seed_meta.py) and replaces everything after the <!-- SEED-TABLE --> marker in
DESIGN.md with the table it prints."""
import subprocess
out = subprocess.check_output(['python3', '/verif/tools/seed_meta.py']).decode()
p = '/verif/DESIGN.md'
s = open(p).read()
m = '<!-- SEED-TABLE -->'
i = s.index(m)
s = s[:i + len(m)] + '\n\n' + out
open(p, 'w').write(s)
print(out.strip().splitlines()[-1])
