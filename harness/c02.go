package harness

import (
	"bytes"
	"fmt"
	"io"
	"strconv"
	"strings"
	"time"

	"github.com/valyala/fasthttp"
	"verif/simrt/simnet"
)

// C02: unread request bodies never turn into requests.

type c02Msg struct {
	Target   string `json:"target"`
	BodyLen  int    `json:"body_len"`
	Chunked  bool   `json:"chunked"`
	Read     string `json:"handler_reads"` // all | none | <n> | postbody | multipart
	Expect   bool   `json:"expect_100"`
	Reject   bool   `json:"rejected_by_hook"`
	SendBody bool   `json:"client_sends_body"`
	WaitMs   int    `json:"client_waits_ms"`
	Trailer  string `json:"chunked_trailer,omitempty"`
	Resp     string `json:"handler_answers,omitempty"` // "" | timeout | timeout-resp : through TimeoutError* (the server swaps the RequestCtx)
}

type c02Conn struct {
	Coalesce bool `json:"adjacent_writes_coalesced,omitempty"`
	Msgs   []c02Msg `json:"msgs"`
	Cuts   int      `json:"max_cuts"`
	Faults bool     `json:"net_faults"`
}

type c02Plan struct {
	Stream     bool      `json:"stream_request_body"`
	MaxBody    int       `json:"max_request_body_size"`
	Hook       string    `json:"hook"` // none | continue | expect
	ExpectCode int       `json:"expect_code"`
	ReduceMem  bool      `json:"reduce_memory_usage"`
	ReadBuf    int       `json:"read_buffer_size"`
	Conns      []c02Conn `json:"conns"`
}

func init() { scenarios["C02"] = scenC02 }

func scenC02(e *Env) func() {
	p := &c02Plan{
		Stream:     e.Chance(60),
		MaxBody:    Pick(e, 0, 0, 30000, 9000),
		Hook:       Pick(e, "none", "continue", "expect", "continue"),
		ExpectCode: Pick(e, 417, 413, 401),
		ReduceMem:  e.Chance(35),
		ReadBuf:    Pick(e, 4096, 4096, 1024, 16384),
	}
	// the mix is a per-run draw too (swarm): some runs use one or two body-reading programs
	// for every message, only chunked or only fixed-length bodies, no expectations at all -
	// combinations that independent per-message draws almost never line up
	readModes := []string{"all", "none", "none", "1", "100", "8192", "postbody", "all", "reset", "resetbody", "setbody", "100+close", "1+close+close", "100+close+setbody", "8192+close+reset"}
	if e.Chance(40) {
		sub := []string{readModes[e.Int(len(readModes))]}
		if e.Bool() {
			sub = append(sub, readModes[e.Int(len(readModes))])
		}
		readModes = sub
	}
	chunkedPct := Pick(e, 35, 35, 0, 100)
	expectPct := Pick(e, 60, 60, 0)
	sizes := []int{0, 10, 300, 4096, 8191, 8192, 8193, 9000, 12000, 17000}
	if e.Thorough() {
		sizes = append(sizes, 40000, 70000)
	}
	nconn := e.Range(2, 4)
	type built struct {
		segs []Seg
		obs  time.Duration
	}
	var builds []built
	var faults []simnet.Faults
	for ci := 0; ci < nconn; ci++ {
		c := c02Conn{Cuts: Pick(e, 0, 2, 6), Faults: e.Chance(30)}
		n := e.Range(1, 3)
		var segs []Seg
		total := time.Duration(0)
		for mi := 0; mi <= n; mi++ {
			canary := mi == n
			m := c02Msg{Target: fmt.Sprintf("/m-%d-%d", ci, mi), Read: "all", SendBody: true}
			if canary {
				m.Target = fmt.Sprintf("/canary-%d", ci)
			} else {
				m.BodyLen = sizes[e.Int(len(sizes))]
				m.Chunked = e.Chance(chunkedPct)
				m.Read = readModes[e.Int(len(readModes))]
				m.Resp = Pick(e, "", "", "", "", "", "timeout", "timeout-resp")
				if p.Hook != "none" && e.Chance(expectPct) {
					m.Expect = true
					m.Reject = e.Chance(50)
					m.WaitMs = Pick(e, 0, 0, 1000)
					if m.Reject {
						m.SendBody = e.Bool() // a polite client does not send the body after a final response
					}
				} else if e.Chance(10) {
					m.Expect = true // no hook: the server sends 100 Continue by itself
					m.WaitMs = Pick(e, 0, 1000)
				}
			}
			c.Msgs = append(c.Msgs, m)
			// bytes
			var head bytes.Buffer
			method := "POST"
			if canary {
				method = "GET"
			}
			fmt.Fprintf(&head, "%s %s HTTP/1.1\r\nHost: x\r\nX-Read: %s\r\n", method, m.Target, m.Read)
			if m.Reject {
				head.WriteString("X-Reject: 1\r\n")
			}
			if m.Resp != "" {
				head.WriteString("X-Resp: " + m.Resp + "\r\n")
			}
			if m.Expect {
				head.WriteString("Expect: 100-continue\r\n")
			}
			var body []byte
			if !canary {
				raw := smuggled(fmt.Sprintf("%d-%d", ci, mi), m.BodyLen)
				if m.Chunked {
					head.WriteString("Transfer-Encoding: chunked\r\n")
					tv := Pick(e, "plain", "plain", "plain", "trailer", "forbidden-trailer", "request-trailer", "bad-trailer")
					c.Msgs[len(c.Msgs)-1].Trailer = tv
					body = chunkedEncode(e, raw, tv)
				} else {
					fmt.Fprintf(&head, "Content-Length: %d\r\n", m.BodyLen)
					body = raw
				}
			}
			head.WriteString("\r\n")
			hb := head.Bytes()
			for _, n := range e.Cuts(len(hb), c.Cuts/2) {
				segs = append(segs, Seg{Data: hb[:n]})
				hb = hb[n:]
			}
			if m.Expect && m.WaitMs > 0 {
				segs[len(segs)-1].Pause = time.Duration(m.WaitMs) * time.Millisecond
				total += segs[len(segs)-1].Pause
			}
			if m.SendBody && len(body) > 0 {
				for _, n := range e.Cuts(len(body), c.Cuts) {
					d := time.Duration(Pick(e, 0, 0, 0, 5, 300)) * time.Millisecond
					segs = append(segs, Seg{Data: body[:n], Pause: d})
					total += d
					body = body[n:]
				}
			}
		}
		if c.Coalesce = e.Chance(35); c.Coalesce {
			// the transport delivers some adjacent writes as one segment: the end of one
			// message and the beginning of the next arrive together
			var m []Seg
			for _, sg := range segs {
				if k := len(m) - 1; k >= 0 && m[k].Pause == 0 && e.Bool() {
					m[k].Data = append(append([]byte(nil), m[k].Data...), sg.Data...)
					m[k].Pause = sg.Pause
					continue
				}
				m = append(m, sg)
			}
			segs = m
		}
		p.Conns = append(p.Conns, c)
		builds = append(builds, built{segs, total + 90*time.Second})
		f := simnet.Faults{}
		if c.Faults {
			f = simnet.Faults{Seg: e.W.Sub(), Lat: e.W.Sub(), Short: e.W.Sub()}
		}
		faults = append(faults, f)
	}
	e.Sample = p
	e.Cfg.Holds, e.Cfg.HoldMax = Pick(e, 0, 0, 2), time.Second
	return func() {
		s := &fasthttp.Server{
			StreamRequestBody:  p.Stream,
			MaxRequestBodySize: p.MaxBody,
			ReduceMemoryUsage:  p.ReduceMem,
			ReadBufferSize:     p.ReadBuf,
			IdleTimeout:        30 * time.Second,
			ReadTimeout:        60 * time.Second,
		}
		switch p.Hook {
		case "continue":
			s.ContinueHandler = func(h *fasthttp.RequestHeader) bool { return len(h.Peek("X-Reject")) == 0 }
		case "expect":
			s.ExpectHandler = func(ctx *fasthttp.RequestCtx) int {
				if len(ctx.Request.Header.Peek("X-Reject")) != 0 {
					return p.ExpectCode
				}
				return fasthttp.StatusContinue
			}
		}
		k := NewServerKit(e, s)
		k.SkipBody = true
		seen := map[string][]byte{} // target -> body bytes the handler read
		complete := map[string]bool{}
		k.Handle = func(ctx *fasthttp.RequestCtx, inv *Inv) {
			mode := string(ctx.Request.Header.Peek("X-Read"))
			var got []byte
			full := false
			switch mode {
			case "reset":
				// a handler may do anything with its request object, also throw it away
				ctx.Request.Reset()
			case "resetbody":
				ctx.Request.ResetBody()
			case "setbody":
				ctx.Request.SetBodyString("replaced")
			case "none":
			case "all", "postbody", "":
				if mode == "all" && ctx.Request.IsBodyStream() {
					b, err := io.ReadAll(ctx.RequestBodyStream())
					got, full = b, err == nil
				} else {
					got, full = append([]byte(nil), ctx.PostBody()...), true
				}
			default:
				// "<n>[+close[+close|+setbody|+reset]]": read n bytes, then let go of the stream in one or two steps
				parts := strings.Split(mode, "+")
				n, _ := strconv.Atoi(parts[0])
				if ctx.Request.IsBodyStream() {
					buf := make([]byte, n)
					m, _ := io.ReadFull(ctx.RequestBodyStream(), buf)
					got = buf[:m]
					for _, step := range parts[1:] {
						switch step {
						case "close":
							ctx.Request.CloseBodyStream()
						case "setbody":
							ctx.Request.SetBodyString("replaced")
						case "reset":
							ctx.Request.ResetBody()
						}
					}
				} else {
					got, full = append([]byte(nil), ctx.PostBody()...), true
				}
			}
			k.mu.Lock()
			seen[inv.URI] = got
			complete[inv.URI] = full
			k.mu.Unlock()
			switch string(ctx.Request.Header.Peek("X-Resp")) {
			case "timeout":
				ctx.TimeoutError("handler gave up")
			case "timeout-resp":
				var r fasthttp.Response
				r.SetStatusCode(504)
				r.SetBodyString("gave up")
				ctx.TimeoutErrorWithResponse(&r)
			default:
				ctx.SetBodyString("ok")
			}
		}
		k.Start()
		exs := make([]*Exchange, nconn)
		var fs []func()
		for ci := range p.Conns {
			ci := ci
			fs = append(fs, func() { exs[ci] = k.RunClient("10.0.2.1", builds[ci].segs, builds[ci].obs, faults[ci], nil) })
		}
		if !WaitAll(time.Hour, "conn", fs...) {
			e.Violation("liveness/clients", "client connections did not finish within a simulated hour")
			return
		}
		for ci, c := range p.Conns {
			c02Judge(e, k, p, ci, c, exs[ci], seen, complete)
		}
		k.Shutdown(time.Minute)
	}
}

func c02Judge(e *Env, k *ServerKit, p *c02Plan, ci int, c c02Conn, ex *Exchange, seen map[string][]byte, complete map[string]bool) {
	if ex == nil || ex.Addr == "" {
		return
	}
	idx := map[string]int{}
	for i, m := range c.Msgs {
		idx[m.Target] = i
	}
	invs := k.Invs(ex.Addr)
	last := -1
	for _, inv := range invs {
		e.Ob(1)
		e.Nontrivial = true
		i, ok := idx[inv.URI]
		// context of the message before the one that went wrong
		ctxOf := func(j int) string {
			if j < 0 || j >= len(c.Msgs) {
				return "first"
			}
			m := c.Msgs[j]
			switch {
			case m.Reject && p.Hook == "continue" && m.SendBody:
				return "after-continue-reject-body-sent"
			case m.Reject && p.Hook == "continue":
				return "after-continue-reject"
			case m.Reject && p.Hook == "expect":
				return "after-expect-reject"
			case p.Stream && m.Read != "all" && m.Read != "postbody" && m.BodyLen > 0:
				return "after-unread-stream"
			case p.Stream:
				return "after-read-stream"
			}
			return "after-buffered"
		}
		if !ok {
			src := last + 1
			if strings.HasPrefix(inv.URI, "/smuggled-") {
				// the smuggled request names the message whose body it came from
				if j, ok2 := idx["/m-"+strings.TrimPrefix(inv.URI, "/smuggled-")]; ok2 {
					src = j
				}
			}
			e.Violation("smuggled/"+strings.TrimPrefix(ctxOf(src), "after-"), "conn %d: the handler was invoked for %s %s, which is not a request the client sent (bytes of the body of message %d were parsed as a request); plan=%+v", ci, inv.Method, inv.URI, last+1, c.Msgs)
			return
		}
		for j := 0; j < i; j++ {
			if t := c.Msgs[j].Trailer; t == "forbidden-trailer" || t == "request-trailer" || t == "bad-trailer" {
				e.Violation("dispatched-after-bad-trailer/"+t, "conn %d: %s was dispatched although the chunked body of the earlier message %s ends in a malformed trailer section (%s)", ci, inv.URI, c.Msgs[j].Target, t)
				return
			}
		}
		if i <= last {
			e.Violation("order","conn %d: invocation for %s came after message %d", ci, inv.URI, last)
			return
		}
		for j := last + 1; j < i; j++ {
			if !c.Msgs[j].Reject {
				e.Violation("skipped/"+ctxOf(j-1), "conn %d: %s was dispatched but the earlier request %s never reached the handler although no hook rejected it; plan=%+v", ci, inv.URI, c.Msgs[j].Target, c.Msgs)
				return
			}
		}
		m := c.Msgs[i]
		if m.Reject {
			e.Violation("rejected-dispatched", "conn %d: %s was rejected by the %s hook yet its handler ran", ci, inv.URI, p.Hook)
			return
		}
		k.mu.Lock()
		got, full := seen[inv.URI], complete[inv.URI]
		k.mu.Unlock()
		want := smuggled(strings.TrimPrefix(m.Target, "/m-"), m.BodyLen)
		if m.Trailer == "forbidden-trailer" || m.Trailer == "request-trailer" || m.Trailer == "bad-trailer" {
			// the body's framing is malformed at its very end: what the handler
			// gets for it is unspecified (PostBody returns the read error's
			// text); the obligation is that nothing after it is dispatched
			last = i
			continue
		}
		if full && !bytes.Equal(got, want) {
			e.Violation("body", "conn %d: handler of %s read a %d-byte body, the client sent %d bytes (first diff at %d)", ci, inv.URI, len(got), len(want), firstDiff(got, want))
			return
		}
		if !full && !bytes.HasPrefix(want, got) {
			e.Violation("body-prefix", "conn %d: handler of %s read %d bytes that are not a prefix of the body sent", ci, inv.URI, len(got))
			return
		}
		last = i
	}
	// a request that was not rejected and reached an open connection must be
	// dispatched: if the connection was still open at the end, every message
	// after the last dispatched one must have been rejected
	if ex.Open && !ex.Closed {
		for j := last + 1; j < len(c.Msgs); j++ {
			if !c.Msgs[j].Reject {
				prev := "first"
				if j > 0 && c.Msgs[j-1].Reject {
					prev = "after-" + p.Hook + "-reject"
				}
				e.Ob(1)
				e.Violation("undispatched/"+prev, "conn %d: the connection stayed open and %s was fully sent, yet its handler never ran (%d responses seen); plan=%+v", ci, c.Msgs[j].Target, len(ex.Resps), c.Msgs)
				return
			}
		}
	}
}

func firstDiff(a, b []byte) int {
	n := len(a)
	if len(b) < n {
		n = len(b)
	}
	for i := 0; i < n; i++ {
		if a[i] != b[i] {
			return i
		}
	}
	return n
}
