package harness

import (
	"crypto/tls"
	"errors"
	"fmt"
	"net"
	"net/http"
	"sync"
	"time"

	"github.com/valyala/fasthttp"
	"verif/simrt/simnet"
)

// C18: HostClient connection pool respects MaxConns and keeps exact accounting.

type c18Call struct {
	ID        string    `json:"id"`
	TimeoutMs int       `json:"timeout_ms"` // 0: Do
	GapMs     int       `json:"gap_ms"`
	GapNs     int       `json:"gap_extra_ns,omitempty"` // the cleaner sleeps until one nanosecond past an expiry: so may a caller
	Method    string    `json:"method"`
	Act       srvAction `json:"server"`
}

type c18Dial struct {
	Kind string `json:"kind"` // ok refuse hang slow
	Ms   int    `json:"ms"`
}

type c18Plan struct {
	MaxConns  int         `json:"max_conns"`
	WaitMs    int         `json:"max_conn_wait_ms"`
	FIFO      bool        `json:"fifo"`
	IdleMs    int         `json:"max_idle_conn_ms"`
	ConnDurMs int         `json:"max_conn_duration_ms"`
	Dials     []c18Dial   `json:"dials"`
	Callers   [][]c18Call `json:"callers"`
	CloseIdleAtMs []int   `json:"close_idle_connections_at_ms,omitempty"` // CloseIdleConnections called during traffic
	TLS       bool        `json:"tls,omitempty"`                  // IsTLS client against a real crypto/tls endpoint
	BadHandshake []bool   `json:"bad_handshake,omitempty"`        // per accepted connection: the peer answers the ClientHello with plaintext
}

func init() { scenarios["C18"] = scenC18 }

func scenC18(e *Env) func() {
	p := &c18Plan{MaxConns: Pick(e, 1, 1, 2, 3), WaitMs: Pick(e, 0, 0, 50, 500, 5000), FIFO: e.Chance(30), IdleMs: Pick(e, 100, 1000, 10000), ConnDurMs: Pick(e, 0, 0, 300)}
	for i := 0; i < 12; i++ {
		d := c18Dial{Kind: Pick(e, "ok", "ok", "ok", "ok", "refuse", "hang", "slow")}
		d.Ms = Pick(e, 1, 50, 700, 3000)
		p.Dials = append(p.Dials, d)
	}
	ncallers := e.Range(2, 8)
	for ci := 0; ci < ncallers; ci++ {
		var cs []c18Call
		n := e.Range(1, 3)
		for i := 0; i < n; i++ {
			a := srvAction{Status: 200, BodyLen: Pick(e, 10, 300), Framing: "cl", DelayMs: Pick(e, 0, 0, 10, 200, 2000), ConnClose: e.Chance(15)}
			if e.Chance(8) {
				a.EOFBefore = true
			}
			if e.Chance(8) {
				a.CloseAt = 20
			}
			cs = append(cs, c18Call{ID: fmt.Sprintf("%d-%d", ci, i), TimeoutMs: Pick(e, 0, 20, 300, 1000, 10000), GapMs: Pick(e, 0, 0, 1, 50, 500), Method: Pick(e, "GET", "GET", "POST"), Act: a})
		}
		p.Callers = append(p.Callers, cs)
	}
	if p.IdleMs <= 1000 && e.Chance(40) {
		// calls that start at the instants the idle-connection cleaner wakes up (multiples of
		// MaxIdleConnDuration after the first connection): sweep and acquisition interleave
		for ci := range p.Callers {
			for i := range p.Callers[ci] {
				if e.Chance(50) {
					p.Callers[ci][i].GapMs = p.IdleMs * Pick(e, 1, 1, 2, 3)
					p.Callers[ci][i].GapNs = Pick(e, 0, 1, 1)
				}
			}
		}
	}
	if e.Chance(20) {
		p.TLS = true
		for i := 0; i < 16; i++ {
			p.BadHandshake = append(p.BadHandshake, e.Chance(35))
		}
	}
	for i, n := 0, Pick(e, 0, 0, 1, 2, 4); i < n; i++ {
		at := Pick(e, 0, 1, 10, 50, 200, 500, 2000)
		if e.Chance(60) {
			// the instant a call's response is due: the release of its connection and the
			// sweep of the idle list then happen at the same simulated instant and are
			// interleaved at lock granularity
			cs := p.Callers[e.Int(len(p.Callers))]
			at = 0
			for _, c := range cs[:1+e.Int(len(cs))] {
				at += c.GapMs + c.Act.DelayMs
			}
		}
		p.CloseIdleAtMs = append(p.CloseIdleAtMs, at)
	}
	if e.Chance(10) {
		// flavour: one connection idle, another one released at the very instant the idle list
		// is swept (CloseIdleConnections), and a later call that uses whatever the pool holds
		d := Pick(e, 50, 200)
		p.MaxConns, p.TLS, p.IdleMs, p.ConnDurMs = Pick(e, 4, 5), false, 10000, 0
		for i := range p.Dials {
			p.Dials[i] = c18Dial{Kind: "ok"}
		}
		ok := func(id string, gap, delay int) c18Call {
			return c18Call{ID: id, GapMs: gap, Method: "GET", Act: srvAction{Status: 200, BodyLen: 10, Framing: "cl", DelayMs: delay}}
		}
		// two connections idle from 10 ms on, two busy until d, the sweep at d, later calls use the pool
		p.Callers = [][]c18Call{{ok("0-0", 0, 10)}, {ok("1-0", 0, 10)}, {ok("2-0", 0, d)}, {ok("3-0", 0, d)}, {ok("4-0", d+100, 0), ok("4-1", 0, 0)}, {ok("5-0", d+100, 5)}}
		p.CloseIdleAtMs = []int{d}
	}
	e.Sample = p
	e.Cfg.Holds, e.Cfg.HoldMax = Pick(e, 0, 0, 2), 100*time.Millisecond
	return func() { c18Run(e, p) }
}

func c18Run(e *Env, p *c18Plan) {
	fs := NewFakeServer(e, "10.0.0.2", 80)
	acts := map[string]srvAction{}
	for _, cs := range p.Callers {
		for _, c := range cs {
			acts[c.ID] = c.Act
		}
	}
	fs.Plan = func(id string, req *http.Request) srvAction { return acts[id] }
	if p.TLS {
		srvCfg := c21TLSConfig("h1.test", "h2.test")
		accepted := 0
		fs.Wrap = func(c net.Conn) net.Conn {
			k := accepted
			accepted++
			if k < len(p.BadHandshake) && p.BadHandshake[k] {
				// not a TLS endpoint after all: the handshake fails at once
				e.Fault("tls_handshake_garbage")
				c.Write([]byte("HTTP/1.1 400 Bad Request\r\nConnection: close\r\n\r\n"))
				return c
			}
			return tls.Server(c, srvCfg)
		}
	}
	fs.Start()
	holdBudget := time.Duration(e.Cfg.Holds) * e.Cfg.HoldMax
	var mu sync.Mutex
	var conns []*simnet.Conn
	dialling, peakLive, ndial := 0, 0, 0
	live := func() int {
		n := dialling
		for _, c := range conns {
			if !c.Closed() {
				n++
			}
		}
		return n
	}
	e.Cfg.Monitor = nil
	dial := func(addr string) (net.Conn, error) {
		mu.Lock()
		k := ndial
		ndial++
		dialling++
		if n := live(); n > peakLive {
			peakLive = n
		}
		mu.Unlock()
		done := func() {
			mu.Lock()
			dialling--
			mu.Unlock()
		}
		d := c18Dial{Kind: "ok"}
		if k < len(p.Dials) {
			d = p.Dials[k]
		}
		switch d.Kind {
		case "refuse":
			e.Fault("dial_refuse")
			done()
			return nil, &net.OpError{Op: "dial", Net: "tcp", Err: simnet.ErrRefused}
		case "hang":
			e.Fault("dial_hang")
			time.Sleep(time.Duration(d.Ms) * time.Millisecond)
			done()
			return nil, &net.OpError{Op: "dial", Net: "tcp", Err: errors.New("i/o timeout")}
		case "slow":
			e.Fault("dial_slow")
			time.Sleep(time.Duration(d.Ms) * time.Millisecond)
		}
		c, err := e.Net.Dial(tcpAddr("10.0.18.1", 20000+k), addr)
		if err != nil {
			done()
			return nil, err
		}
		mu.Lock()
		dialling--
		conns = append(conns, c)
		if n := live(); n > peakLive {
			peakLive = n
		}
		mu.Unlock()
		return c, nil
	}
	hc := &fasthttp.HostClient{Addr: "10.0.0.2:80", Dial: dial, MaxConns: p.MaxConns, MaxConnWaitTimeout: time.Duration(p.WaitMs) * time.Millisecond,
		MaxIdleConnDuration: time.Duration(p.IdleMs) * time.Millisecond, MaxConnDuration: time.Duration(p.ConnDurMs) * time.Millisecond, ReadTimeout: time.Minute, WriteTimeout: time.Minute}
	if p.FIFO {
		hc.ConnPoolStrategy = fasthttp.FIFO
	}
	if p.TLS {
		hc.IsTLS = true
		hc.TLSConfig = &tls.Config{InsecureSkipVerify: true, MinVersion: tls.VersionTLS12, MaxVersion: tls.VersionTLS12, Rand: zeroReader{}}
	}
	var fsx []func()
	for ci := range p.Callers {
		ci := ci
		fsx = append(fsx, func() {
			for _, c := range p.Callers[ci] {
				time.Sleep(time.Duration(c.GapMs)*time.Millisecond + time.Duration(c.GapNs))
				req, resp := fasthttp.AcquireRequest(), fasthttp.AcquireResponse()
				if p.TLS {
					req.SetRequestURI("https://10.0.0.2:80/p?id=" + c.ID)
				} else {
					req.SetRequestURI("http://10.0.0.2/p?id=" + c.ID)
				}
				req.Header.SetMethod(c.Method)
				start := Now()
				var err error
				if c.TimeoutMs > 0 {
					err = hc.DoTimeout(req, resp, time.Duration(c.TimeoutMs)*time.Millisecond)
				} else {
					err = hc.Do(req, resp)
				}
				took := Now() - start
				e.Ob(1)
				if err == nil {
					e.Nontrivial = true
					if got := string(resp.Header.Peek("X-Id")); got != c.ID {
						e.Violation("lent-twice/crossed", "call %s got the response of %q", c.ID, got)
						return
					}
				} else if errors.Is(err, fasthttp.ErrNoFreeConns) {
					e.Probe("no-free-conns")
				} else if errors.Is(err, fasthttp.ErrTimeout) {
					e.Probe("timeout")
				}
				if c.TimeoutMs > 0 {
					limit := time.Duration(c.TimeoutMs)*time.Millisecond + holdBudget + 2*time.Second
					// a hanging dial is not interruptible by the request timeout unless DialTimeout is used
					for _, d := range p.Dials {
						if d.Kind != "ok" && d.Kind != "refuse" {
							limit += time.Duration(d.Ms) * time.Millisecond
						}
					}
					if took > limit {
						e.Violation("deadline", "call %s with timeout %dms returned after %v (err %v)", c.ID, c.TimeoutMs, took, err)
						return
					}
				}
			}
		})
	}
	for _, at := range p.CloseIdleAtMs {
		at := at
		fsx = append(fsx, func() {
			time.Sleep(time.Duration(at) * time.Millisecond)
			hc.CloseIdleConnections()
			e.Probe("close-idle-during-traffic")
		})
	}
	if !WaitAll(3*time.Hour, "caller", fsx...) {
		e.Violation("liveness/callers", "a HostClient call never returned (waiter without connection, error or timeout)")
		return
	}
	e.Ob(2)
	if peakLive > p.MaxConns {
		e.Violation("max-conns", "%d connections were open or being dialled at once with MaxConns=%d", peakLive, p.MaxConns)
		return
	}
	// one request in flight per connection: the server never finds a second
	// request waiting while it is still answering the first (HostClient does not pipeline)
	for ci, sc := range fs.Conns {
		_ = ci
		_ = sc
	}
	// quiescence: idle connections expire, the count returns to zero
	time.Sleep(2*time.Duration(p.IdleMs)*time.Millisecond + 15*time.Second)
	if n := hc.ConnsCount(); n != 0 {
		open := 0
		for _, c := range conns {
			if !c.Closed() {
				open++
			}
		}
		e.Violation("conns-count", "ConnsCount()=%d after every call returned and idle connections expired (%d connections actually open)", n, open)
		return
	}
	for i, c := range conns {
		if !c.Closed() {
			e.Violation("conn-leak", "connection #%d is still open although ConnsCount()=0", i)
			return
		}
	}
	fs.Ln.Close()
}
