module verif/cmd/verifctl

go 1.25.0
