// Package harness holds the simulated scenarios (one per property) that run
// against the instrumented fasthttp tree. One OS process executes exactly one
// simulated run:
//
//	sim.test -test.run '^TestSim$' -prop C01 -seed 42 -tier quick [-replay file] [-trace]
package harness

import (
	"encoding/json"
	"flag"
	"fmt"
	"os"
	"runtime"
	"runtime/debug"
	"sort"
	"strings"
	"testing"
	"testing/synctest"
	"time"

	"verif/simrt"
	"verif/simrt/simnet"
	simsync "verif/simrt/simsync"
)

var (
	flagProp   = flag.String("prop", "", "property id")
	flagSeed   = flag.Uint64("seed", 1, "run seed")
	flagTier   = flag.String("tier", "quick", "quick|thorough")
	flagReplay = flag.String("replay", "", "replay file")
	flagTrace  = flag.Bool("trace", false, "keep human-readable trace")
	flagTapes  = flag.Bool("tapes", false, "always include tapes in the result")
	flagKnown  = flag.String("known", "", "known_findings.json")
	flagIndex  = flag.Int("index", 0, "run index within the batch (enumeration)")
)

// ReplayFile is the on-disk replay format.
type ReplayFile struct {
	Property   string   `json:"property"`
	Seed       uint64   `json:"seed"`
	Tier       string   `json:"tier"`
	Index      int      `json:"run_index"`
	GOMAXPROCS int      `json:"gomaxprocs"`
	WTape      []uint32 `json:"workload_tape"`
	STape      []uint32 `json:"schedule_tape"`
	Signature  string   `json:"signature"`
	Detail     string   `json:"detail,omitempty"`
	LogHash    string   `json:"event_log_hash,omitempty"`
	MinFrom    [2]int   `json:"minimised_from,omitempty"`
	MinTo      [2]int   `json:"minimised_to,omitempty"`
	Plan       any      `json:"plan,omitempty"`
	Trace      []string `json:"human_trace,omitempty"`
}

// RunResult is printed as one "RESULT {json}" line.
type RunResult struct {
	Prop        string         `json:"prop"`
	Seed        uint64         `json:"seed"`
	Verdict     string         `json:"verdict"` // ok | violation | inconclusive | error
	Sig         string         `json:"sig,omitempty"`
	Detail      string         `json:"detail,omitempty"`
	Inconcl     string         `json:"inconclusive,omitempty"`
	Steps       int            `json:"steps"`
	Switches    int            `json:"switches"`
	SimMs       int64          `json:"sim_ms"`
	LogHash     string         `json:"loghash"`
	ILSig       string         `json:"ilsig"`
	Strategy    string         `json:"strategy"`
	Oblig       int            `json:"oblig"`
	Nontrivial  bool           `json:"nontrivial"`
	Faults      map[string]int `json:"faults,omitempty"`
	Probes      map[string]int `json:"probes,omitempty"`
	Known       []string       `json:"known,omitempty"` // known-finding signatures hit
	Sample      any            `json:"sample,omitempty"`
	WTape       []uint32       `json:"wtape,omitempty"`
	STape       []uint32       `json:"stape,omitempty"`
	WLen        int            `json:"wlen"`
	SLen        int            `json:"slen"`
	GOMAXPROCS  int            `json:"gomaxprocs"`
	Trace       []string       `json:"trace,omitempty"`
	Census      map[string]int `json:"census,omitempty"`
	MaxTasks    int            `json:"max_tasks"`
}

// scenarios whose generator does not itself decide about adversarial pools
var poolAdversarialToo = map[string]bool{"C01": true, "C02": true, "C03": true, "C34": true, "C07": true, "C09": true, "C10": true,
	"C16": true, "C17": true, "C18": true, "C19": true, "C20": true, "C21": true, "C22": true, "C23": true, "C24": true, "C25": true,
	"C35": true, "C36": true, "C38": true}

func emit(r *RunResult) {
	b, _ := json.Marshal(r)
	fmt.Printf("RESULT %s\n", b)
	os.Stdout.Sync()
}

func TestSim(t *testing.T) {
	if *flagProp == "" {
		t.Skip("no -prop")
	}
	sc, ok := scenarios[*flagProp]
	if !ok {
		fmt.Printf("RESULT {\"verdict\":\"error\",\"detail\":\"unknown property %s\"}\n", *flagProp)
		os.Exit(2)
	}
	runtime.GOMAXPROCS(1)
	debug.SetGCPercent(400)
	e := &Env{Prop: *flagProp, Seed: *flagSeed, Tier: *flagTier, Probes: map[string]int{}, Faults: map[string]int{}}
	var stape *simrt.Tape
	if *flagReplay != "" {
		b, err := os.ReadFile(*flagReplay)
		if err != nil {
			fmt.Println("replay:", err)
			os.Exit(2)
		}
		var rf ReplayFile
		if err := json.Unmarshal(b, &rf); err != nil {
			fmt.Println("replay:", err)
			os.Exit(2)
		}
		e.Seed, e.Tier = rf.Seed, rf.Tier
		*flagIndex = rf.Index
		e.W = simrt.ReplayTape(rf.WTape)
		stape = simrt.ReplayTape(rf.STape)
	} else {
		e.W = simrt.NewTape(simrt.Mix(e.Seed, 1))
		stape = simrt.NewTape(simrt.Mix(e.Seed, 2))
	}
	e.loadKnown(*flagKnown)
	e.Cfg = simrt.Config{Strategy: -1, KeepTrace: *flagTrace, MaxSteps: 300000, MaxSimTime: 12 * time.Hour}
	// wall-clock watchdog, outside the bubble (real time)
	go func() {
		if e.Prop == "C08" {
			// C08's scenarios are single-task parser calls that take milliseconds: a call
			// that burns a whole real minute without returning (and without reading, or the
			// read budget would have stopped it) is the non-termination the property
			// forbids. The loop is a deterministic function of the input, so it replays.
			time.Sleep(60 * time.Second)
			out := &RunResult{Prop: e.Prop, Seed: e.Seed, Verdict: "violation", Sig: "C08/no-termination/cpu-loop",
				Detail: "a parser call did not return within 60 s of real time although no read was pending (busy loop); sample plan in the replay file", WTape: e.W.Rec, Strategy: "n/a"}
			emit(out)
			os.Exit(0)
		}
		time.Sleep(240 * time.Second) // real time; generous: the machine may be heavily loaded
		fmt.Printf("RESULT {\"prop\":%q,\"seed\":%d,\"verdict\":\"error\",\"detail\":\"wall-clock watchdog\"}\n", e.Prop, e.Seed)
		os.Exit(3)
	}()
	defer func() {
		if r := recover(); r != nil {
			fmt.Printf("RESULT {\"prop\":%q,\"seed\":%d,\"verdict\":\"error\",\"detail\":%q}\n", e.Prop, e.Seed, fmt.Sprint(r))
			os.Exit(2)
		}
	}()
	synctest.Test(t, func(t *testing.T) {
		e.Net = simnet.New()
		root := sc(e)
		// sync.Pool retention is a simulator decision in every scenario that
		// recycles fasthttp objects: in a share of the runs Get may return any
		// object ever Put (legal for a pool), so that incomplete resets surface.
		if !e.Cfg.PoolAdversarial && poolAdversarialToo[e.Prop] {
			e.Cfg.PoolAdversarial = e.Chance(30)
		}
		simsync.SetAdversarialPools(e.Cfg.PoolAdversarial)
		guarded := func() {
			defer func() {
				if r := recover(); r != nil {
					e.harnessPanic = fmt.Sprintf("%v\n%s", r, debug.Stack())
				}
			}()
			root()
		}
		res := simrt.Run(guarded, e.Cfg, stape)
		out := &RunResult{Prop: e.Prop, Seed: e.Seed, Steps: res.Steps, Switches: res.Switches, SimMs: res.SimTime.Milliseconds(),
			LogHash: fmt.Sprintf("%016x", res.LogHash), ILSig: fmt.Sprintf("%016x-%016x", res.ILSig, tapeHash(e.W.Rec)), Strategy: res.Strategy,
			Oblig: e.Oblig, Nontrivial: e.Nontrivial, Probes: e.Probes, Faults: e.Faults, Sample: e.Sample,
			WLen: e.W.Pos(), SLen: stape.Pos(), GOMAXPROCS: simrt.GOMAXPROCS(0), Known: e.known, MaxTasks: res.MaxTasks}
		for k, v := range e.Net.Stats {
			if strings.HasPrefix(k, "fault.") {
				out.Faults[strings.TrimPrefix(k, "fault.")] += v
			} else {
				out.Probes[k] += v
			}
		}
		if res.Holds > 0 {
			out.Faults["hold"] += res.Holds
		}
		if res.Yields > 0 {
			out.Faults["site_yield"] += res.Yields
		}
		if n := simsync.PoolStale.Load(); n > 0 {
			out.Faults["pool_stale"] += int(n)
		}
		if n := simsync.PoolFresh.Load(); n > 0 {
			out.Faults["pool_fresh"] += int(n)
		}
		// a panic that escaped a task would have crashed the real process
		for _, tp := range simrt.Panics {
			origin := panicOrigin(tp.Stack)
			if strings.Contains(origin, "valyala/fasthttp") || strings.Contains(origin, "valyala/bytebufferpool") {
				fn := frameFunc(origin)
				e.Violation("panic/"+fn, "a fasthttp goroutine (%s) panicked: %s; origin %s\n%s", tp.Site, tp.Value, origin, clip(tp.Stack, 1800))
			} else if strings.Contains(fmt.Sprint(tp.Value), "instrumented stream panic") && !strings.HasPrefix(tp.Site, "actor:") {
				// the scenario made a body stream's Read panic (C34's subject) and the
				// panic escaped from a goroutine that fasthttp started: the process is gone
				e.Violation("panic/body-stream-read-escaped", "a panic raised by a body stream's Read escaped from the fasthttp goroutine %s: the process would have crashed\n%s", tp.Site, clip(tp.Stack, 1500))
			} else if e.harnessPanic == "" {
				e.harnessPanic = fmt.Sprintf("task %s (%s): %s\n%s", tp.Task, tp.Site, tp.Value, tp.Stack)
			}
		}
		switch {
		case e.harnessPanic != "":
			out.Verdict, out.Detail = "error", "harness panic: "+e.harnessPanic
		case e.sig != "":
			out.Verdict, out.Sig, out.Detail = "violation", e.sig, e.detail
		case res.StepLimit || res.Stuck:
			// a run that did not finish is never a verdict on the property
			out.Verdict = "inconclusive"
			out.Inconcl = fmt.Sprintf("run did not finish: steplimit=%v stuck=%v", res.StepLimit, res.Stuck)
			var sites []string
			for s, n := range res.Census {
				sites = append(sites, fmt.Sprintf("%s=%d", s, n))
			}
			sort.Strings(sites)
			out.Detail = strings.Join(sites, " ")
		case e.inconcl != "":
			out.Verdict, out.Inconcl = "inconclusive", e.inconcl
		default:
			out.Verdict = "ok"
		}
		if out.Verdict == "violation" || *flagTapes {
			out.WTape, out.STape = e.W.Rec, stape.Rec
		}
		if *flagTrace {
			out.Trace = res.Trace
			out.Census = res.Census
			out.Trace = append(out.Trace, e.notes...)
		}
		emit(out)
		if out.Verdict == "error" {
			os.Exit(2)
		}
		os.Exit(0)
	})
}
