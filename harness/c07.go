package harness

import (
	"bytes"
	"compress/gzip"
	"compress/zlib"
	"errors"
	"fmt"
	"mime/multipart"
	"net/http"
	"strconv"
	"strings"
	"sync"
	"time"

	"github.com/andybalholm/brotli"
	"github.com/klauspost/compress/zstd"
	"github.com/valyala/fasthttp"
	"verif/simrt/simnet"
)

// C07: configured size limits bound what is buffered.

type c07Req struct {
	ID      string `json:"id"`
	Kind    string `json:"kind"` // body | head | bomb | multipart
	Size    int    `json:"size"`
	Framing string `json:"framing"` // cl | chunked-tiny | chunked-one | chunked-mixed
	Limit2  int    `json:"header_received_limit"` // 0: none
	Codec   string `json:"codec"`
	Cuts    int    `json:"cuts"`
	Expect  bool   `json:"expect_100_continue,omitempty"` // the body is read after the server's 100 Continue: the same limits apply
	Warm    bool   `json:"preceded_by_request_with_large_limit,omitempty"` // same connection: an earlier request was granted a 10 MB limit through HeaderReceived
}

type c07Plan struct {
	Mode    string   `json:"mode"` // server | client
	L       int      `json:"limit"`
	ReadBuf int      `json:"read_buffer_size"`
	RespUse string   `json:"client_response_objects,omitempty"` // fresh | released (back to the pool after each call) | reused (one Response for all calls)
	Reqs    []c07Req `json:"reqs"`
}

func init() { scenarios["C07"] = scenC07 }

func scenC07(e *Env) func() {
	p := &c07Plan{Mode: Pick(e, "server", "server", "client"), L: Pick(e, 1, 100, 1000, 5000, 20000, 70000, 0), ReadBuf: Pick(e, 4096, 4096, 512, 1024, 8192)}
	if e.Thorough() && e.Chance(10) {
		p.L = 2 << 20
	}
	l := p.L
	if l <= 0 {
		l = 4 << 20
	}
	n := e.Range(2, 6)
	for i := 0; i < n; i++ {
		r := c07Req{ID: fmt.Sprint(i), Kind: Pick(e, "body", "body", "body", "head", "bomb", "multipart"), Framing: Pick(e, "cl", "cl", "chunked-tiny", "chunked-one", "chunked-mixed"), Cuts: Pick(e, 0, 2, 8)}
		eff := l
		if p.Mode == "server" && e.Chance(25) {
			r.Limit2 = Pick(e, 1, 50, 3000, 30000)
			eff = r.Limit2
		}
		if eff > 200000 && !e.Thorough() {
			// around-the-limit bodies of several MiB only in the thorough tier
			r.Size = Pick(e, 0, 10, 5000)
		} else {
			r.Size = Pick(e, eff-1, eff, eff+1, eff+1, 2*eff+7, eff/2, 10*eff+3)
		}
		if r.Size < 0 {
			r.Size = 0
		}
		if r.Size > 6<<20 {
			r.Size = 6 << 20
		}
		switch r.Kind {
		case "head":
			r.Size = Pick(e, p.ReadBuf-200, p.ReadBuf, p.ReadBuf+1, p.ReadBuf+300, 3*p.ReadBuf)
		case "bomb":
			r.Codec = Pick(e, "gzip", "deflate", "br", "zstd", "gzip2")
			if r.Size > 1<<20 {
				r.Size = 1 << 20
			}
		}
		r.Warm = p.Mode == "server" && r.Kind != "head" && e.Chance(25)
		r.Expect = p.Mode == "server" && r.Kind == "body" && e.Chance(25)
		p.Reqs = append(p.Reqs, r)
	}
	if p.Mode == "client" {
		// the client's body buffers are pooled objects: what an earlier, legal
		// response left in them (capacity) must not widen the limit for a later one
		p.RespUse = Pick(e, "fresh", "released", "reused", "released")
		for i := range p.Reqs {
			if p.Reqs[i].Kind != "head" && e.Chance(35) {
				p.Reqs[i].Framing = "close"
			}
		}
		if e.Chance(40) && l < 200000 {
			// flavour: a response just within the limit grows the buffer, then
			// identity-until-close responses slightly above the limit follow
			p.Reqs = append([]c07Req{{ID: "g0", Kind: "body", Size: Pick(e, l, l-1, l), Framing: Pick(e, "cl", "close", "chunked-one")}}, p.Reqs...)
			for i := 0; i < 2; i++ {
				p.Reqs = append(p.Reqs, c07Req{ID: fmt.Sprintf("g%d", i+1), Kind: "body", Size: l + Pick(e, 1, 2, 10, l/3+1), Framing: Pick(e, "close", "close", "cl", "chunked-one")})
			}
		}
	}
	e.Sample = p
	if p.Mode == "client" {
		return func() { c07Client(e, p) }
	}
	return func() { c07Server(e, p) }
}

func chunkIt(e *Env, body []byte, mode string) []byte {
	var b bytes.Buffer
	switch mode {
	case "chunked-one":
		if len(body) > 0 {
			fmt.Fprintf(&b, "%x\r\n", len(body))
			b.Write(body)
			b.WriteString("\r\n")
		}
	default:
		for off := 0; off < len(body); {
			n := 1 + (off*7)%7
			if mode == "chunked-mixed" && off%3 == 0 {
				n = 1000
			}
			if n > len(body)-off {
				n = len(body) - off
			}
			fmt.Fprintf(&b, "%x\r\n", n)
			b.Write(body[off : off+n])
			b.WriteString("\r\n")
			off += n
		}
	}
	b.WriteString("0\r\n\r\n")
	return b.Bytes()
}

func compressWith(codec string, data []byte) []byte {
	var b bytes.Buffer
	switch codec {
	case "gzip":
		w := gzip.NewWriter(&b)
		w.Write(data)
		w.Close()
	case "gzip2":
		// a gzip stream of two members (RFC 1952 allows it): the bulk, then one byte;
		// the trailer of the stream only describes the last member
		n := len(data) - 1
		if n < 0 {
			n = 0
		}
		w := gzip.NewWriter(&b)
		w.Write(data[:n])
		w.Close()
		w = gzip.NewWriter(&b)
		w.Write(data[n:])
		w.Close()
	case "deflate":
		w := zlib.NewWriter(&b)
		w.Write(data)
		w.Close()
	case "br":
		w := brotli.NewWriter(&b)
		w.Write(data)
		w.Close()
	case "zstd":
		w, _ := zstd.NewWriter(&b)
		w.Write(data)
		w.Close()
	}
	return b.Bytes()
}

func c07Server(e *Env, p *c07Plan) {
	limit := p.L
	if limit <= 0 {
		limit = 4 << 20
	}
	byID := map[string]*c07Req{}
	for i := range p.Reqs {
		byID[p.Reqs[i].ID] = &p.Reqs[i]
	}
	s := &fasthttp.Server{MaxRequestBodySize: p.L, ReadBufferSize: p.ReadBuf, IdleTimeout: time.Minute,
		HeaderReceived: func(h *fasthttp.RequestHeader) fasthttp.RequestConfig {
			if v, err := strconv.Atoi(string(h.Peek("X-Limit"))); err == nil && v > 0 {
				return fasthttp.RequestConfig{MaxRequestBodySize: v}
			}
			return fasthttp.RequestConfig{}
		}}
	k := NewServerKit(e, s)
	var mu sync.Mutex
	seenLen := map[string]int{}
	helper := map[string]string{}
	k.Handle = func(ctx *fasthttp.RequestCtx, inv *Inv) {
		id := string(ctx.QueryArgs().Peek("id"))
		r := byID[id]
		mu.Lock()
		seenLen[id] = len(ctx.Request.Body())
		mu.Unlock()
		if r == nil {
			return
		}
		hl, _ := strconv.Atoi(string(ctx.Request.Header.Peek("X-Helper-Limit")))
		switch r.Kind {
		case "bomb":
			out, err := ctx.Request.BodyUncompressedWithLimit(hl)
			res := fmt.Sprintf("len=%d err=%v", len(out), err)
			if err != nil && !errors.Is(err, fasthttp.ErrBodyTooLarge) {
				res = "len=0 err=other:" + err.Error()
			}
			mu.Lock()
			helper[id] = res
			mu.Unlock()
		case "multipart":
			f, err := ctx.Request.MultipartFormWithLimit(hl)
			total := 0
			if f != nil {
				for _, vs := range f.Value {
					for _, v := range vs {
						total += len(v)
					}
				}
			}
			mu.Lock()
			helper[id] = fmt.Sprintf("len=%d err=%v", total, err)
			mu.Unlock()
			ctx.Request.RemoveMultipartFormFiles()
		}
		ctx.SetBodyString("ok")
	}
	k.Start()
	for i := range p.Reqs {
		r := &p.Reqs[i]
		eff := limit
		if r.Limit2 > 0 {
			eff = r.Limit2
		}
		var head, body []byte
		hdr := fmt.Sprintf("X-Pad: x\r\n")
		if r.Expect {
			hdr += "Expect: 100-continue\r\n"
		}
		if r.Limit2 > 0 {
			hdr += fmt.Sprintf("X-Limit: %d\r\n", r.Limit2)
		}
		raw := bodyPat("c07"+r.ID, r.Size)
		helperLimit := 0
		switch r.Kind {
		case "head":
			hdr += "X-Big: " + strings.Repeat("h", r.Size) + "\r\n"
			raw = nil
		case "bomb":
			// highly compressible payload of r.Size bytes; the helper limit is the plan's limit
			raw = compressWith(r.Codec, bytes.Repeat([]byte("A"), r.Size))
			ce := r.Codec
			if ce == "gzip2" {
				ce = "gzip"
			}
			hdr += "Content-Encoding: " + ce + "\r\n"
			helperLimit = eff
			hdr += fmt.Sprintf("X-Helper-Limit: %d\r\n", helperLimit)
		case "multipart":
			var mb bytes.Buffer
			w := multipart.NewWriter(&mb)
			w.SetBoundary("c07bnd")
			nparts := 1 + r.Size/500
			if nparts > 40 {
				nparts = 40
			}
			for j := 0; j < nparts; j++ {
				w.WriteField(fmt.Sprintf("f%d", j), strings.Repeat("v", r.Size/nparts))
			}
			w.Close()
			raw = mb.Bytes()
			hdr += "Content-Type: " + w.FormDataContentType() + "\r\n"
			helperLimit = eff
			hdr += fmt.Sprintf("X-Helper-Limit: %d\r\n", helperLimit)
		}
		if r.Framing == "cl" || r.Kind == "head" {
			hdr += fmt.Sprintf("Content-Length: %d\r\n", len(raw))
			body = raw
		} else {
			hdr += "Transfer-Encoding: chunked\r\n"
			body = chunkIt(e, raw, r.Framing)
		}
		method := "POST"
		if r.Kind == "head" {
			method = "GET"
			hdr = strings.Replace(hdr, "Content-Length: 0\r\n", "", 1)
		}
		head = []byte(fmt.Sprintf("%s /l?id=%s HTTP/1.1\r\nHost: x\r\n%s\r\n", method, r.ID, hdr))
		conn, err := k.Dial("10.0.7.1")
		if err != nil {
			return
		}
		sc := &SeqClient{C: conn}
		sc2, _ := k.NewSeqClient("10.0.7.2", simnet.Faults{})
		sc2.C.Close()
		sc = &SeqClient{C: conn}
		_ = sc
		// write head+body in a writer task (the server may stop reading)
		wdone := make(chan struct{})
		all := append(append([]byte{}, head...), body...)
		warm := []byte(nil)
		if r.Warm {
			// a limit granted to one request is that request's: it must not stick to the connection
			warm = []byte(fmt.Sprintf("POST /l?id=warm-%s HTTP/1.1\r\nHost: x\r\nX-Limit: 10000000\r\nContent-Length: 5\r\n\r\nhello", r.ID))
			all = append(append([]byte{}, warm...), all...)
		}
		Go("c07-writer", func() {
			defer close(wdone)
			off := 0
			step := len(all)
			if r.Cuts > 0 {
				step = len(all)/r.Cuts + 1
			}
			for off < len(all) {
				n := step
				if n > len(all)-off {
					n = len(all) - off
				}
				if _, err := conn.Write(all[off : off+n]); err != nil {
					return
				}
				off += n
			}
		})
		ex := &Exchange{Addr: conn.LocalAddr().String()}
		readResponses(conn, 40*time.Second, func(int, int) string { return method }, ex)
		consumed := conn.Peer().RecvLen() - int64(len(warm))
		conn.Close()
		<-wdone
		if r.Warm && len(ex.Resps) > 0 {
			ex.Resps = ex.Resps[1:] // the warm-up request's response
		}
		for len(ex.Resps) > 0 && ex.Resps[0].Status >= 100 && ex.Resps[0].Status < 200 {
			ex.Resps = ex.Resps[1:] // 100 Continue
		}
		e.Ob(1)
		e.Nontrivial = true
		tag := fmt.Sprintf("req %s (%s %s, %d bytes -> %d on the wire, limit %d, header-received limit %d, ReadBufferSize %d)", r.ID, r.Kind, r.Framing, r.Size, len(raw), p.L, r.Limit2, p.ReadBuf)
		status := 0
		if len(ex.Resps) > 0 {
			status = ex.Resps[0].Status
		}
		mu.Lock()
		got, invoked := seenLen[r.ID]
		hres := helper[r.ID]
		mu.Unlock()
		switch r.Kind {
		case "head":
			headLen := len(head)
			if headLen > p.ReadBuf {
				if status != 431 {
					e.Violation("head-too-large/status", "%s: a %d-byte head got status %d, expected 431", tag, headLen, status)
					return
				}
				if !ex.Closed {
					e.Violation("head-too-large/not-closed", "%s: connection left open after 431", tag)
					return
				}
				if invoked {
					e.Violation("head-too-large/served", "%s: handler ran for a head larger than ReadBufferSize", tag)
					return
				}
			}
		default:
			wire := len(raw)
			if wire > eff {
				// oversize non-streamed body: error response, close, handler never sees it
				if invoked {
					e.Violation("oversize-served/"+strings.Split(r.Framing, "-")[0], "%s: the handler was invoked with a %d-byte body although the limit is %d", tag, got, eff)
					return
				}
				if status < 400 {
					e.Violation("oversize-status", "%s: status %d for an oversize body", tag, status)
					return
				}
				if !ex.Closed {
					e.Violation("oversize-not-closed", "%s: connection left open after rejecting an oversize body", tag)
					return
				}
				// bytes taken from the transport for this message: head + at most limit (+ read buffers)
				bound := int64(len(head) + eff + 3*p.ReadBuf + 8192)
				if r.Framing != "cl" {
					bound += int64(eff) // chunk framing overhead of tiny chunks is up to ~5 bytes per body byte
					bound += int64(4 * eff)
				}
				if consumed > bound {
					e.Violation("peak-buffer/"+strings.Split(r.Framing, "-")[0], "%s: the server read %d bytes of the message before rejecting it (head %d + limit %d + buffers allow %d)", tag, consumed, len(head), eff, bound)
					return
				}
			} else if r.Kind == "body" {
				if !invoked || got != wire {
					e.Violation("within-limit-rejected", "%s: body within the limit: handler invoked=%v with %d bytes, status %d", tag, invoked, got, status)
					return
				}
			}
			if invoked && hres != "" {
				// helper results: never more than the helper limit
				var hl int
				var herr string
				fmt.Sscanf(hres, "len=%d err=%s", &hl, &herr)
				lim := eff
				if hl > lim {
					e.Violation("helper-limit/"+r.Kind+"-"+r.Codec, "%s: the WithLimit helper returned %d bytes with limit %d", tag, hl, lim)
					return
				}
				if r.Kind == "bomb" && r.Size <= lim && (hl != r.Size || !strings.HasPrefix(herr, "<nil>")) {
					e.Violation("helper-within-limit/"+r.Codec, "%s: %d uncompressed bytes fit the limit %d but the helper returned %s", tag, r.Size, lim, hres)
					return
				}
				if r.Kind == "bomb" && r.Size > lim && strings.HasPrefix(herr, "<nil>") {
					e.Violation("helper-bomb-accepted/"+r.Codec, "%s: %d uncompressed bytes exceed the limit %d and the helper returned %s", tag, r.Size, lim, hres)
					return
				}
			}
		}
	}
	k.Shutdown(time.Minute)
}

func c07Client(e *Env, p *c07Plan) {
	limit := p.L
	fs := NewFakeServer(e, "10.0.0.2", 80)
	acts := map[string]srvAction{}
	for _, r := range p.Reqs {
		fr := "cl"
		switch r.Framing {
		case "chunked-tiny", "chunked-one", "chunked-mixed":
			fr = "chunked"
		}
		if r.Kind == "head" || r.Framing == "close" {
			fr = "close"
		}
		size := r.Size
		if size < 12 {
			size = 12
		}
		acts[r.ID] = srvAction{Status: 200, BodyLen: size, Framing: fr}
	}
	fs.Plan = func(id string, req *http.Request) srvAction { return acts[id] }
	fs.Start()
	var ds DialStats
	hc := &fasthttp.HostClient{Addr: "10.0.0.2:80", Dial: e.Dialer("10.0.7.9", &ds), MaxResponseBodySize: limit, ReadBufferSize: p.ReadBuf, ReadTimeout: time.Minute}
	var shared *fasthttp.Response
	for _, r := range p.Reqs {
		a := acts[r.ID]
		req, resp := fasthttp.AcquireRequest(), (*fasthttp.Response)(nil)
		switch p.RespUse {
		case "reused":
			if shared == nil {
				shared = fasthttp.AcquireResponse()
			}
			resp = shared
		default:
			resp = fasthttp.AcquireResponse()
		}
		req.SetRequestURI("http://10.0.0.2/x?id=" + r.ID)
		err := hc.Do(req, resp)
		e.Ob(1)
		e.Nontrivial = true
		want := ExpectedBody(r.ID, a)
		tag := fmt.Sprintf("response %s (%s framing, %d bytes, MaxResponseBodySize %d)", r.ID, a.Framing, len(want), limit)
		if limit > 0 && len(want) > limit {
			if !errors.Is(err, fasthttp.ErrBodyTooLarge) {
				e.Violation("client-oversize-accepted/"+a.Framing, "%s: Do returned err=%v with a %d-byte body", tag, err, len(resp.Body()))
				return
			}
			// what was already in the read buffer when the limit was crossed may have been appended
			if len(resp.Body()) > limit+max(p.ReadBuf, 4096) {
				e.Violation("client-oversize-buffered/"+a.Framing, "%s: %d body bytes were buffered", tag, len(resp.Body()))
				return
			}
		} else {
			if err != nil || !bytes.Equal(resp.Body(), want) {
				e.Violation("client-within-limit/"+a.Framing, "%s: err=%v, %d bytes", tag, err, len(resp.Body()))
				return
			}
		}
		if p.RespUse == "released" {
			fasthttp.ReleaseResponse(resp)
		}
		fasthttp.ReleaseRequest(req)
	}
	fs.Ln.Close()
}
