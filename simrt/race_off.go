//go:build !race

package simrt

import "unsafe"

const RaceEnabled = false

func RaceOff() {}
func RaceOn()  {}

func RaceAcquire(p unsafe.Pointer)      {}
func RaceReleaseMerge(p unsafe.Pointer) {}
