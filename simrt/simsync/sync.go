package sync

import (
	"iter"
	"sort"
	gosync "sync"
	"sync/atomic"
	"unsafe"

	"verif/simrt"
)

type Locker = gosync.Locker

type Mutex struct {
	mu   gosync.Mutex
	held atomic.Int32
}

func (m *Mutex) Lock() {
	simrt.Gate("lock", func() bool { return m.held.Load() == 0 })
	m.mu.Lock()
	m.held.Store(1)
}
func (m *Mutex) Unlock() {
	m.held.Store(0)
	m.mu.Unlock()
}
func (m *Mutex) TryLock() bool {
	simrt.Gate("trylock", nil)
	if m.mu.TryLock() {
		m.held.Store(1)
		return true
	}
	return false
}

type RWMutex struct {
	mu      gosync.RWMutex
	writer  atomic.Int32
	readers atomic.Int32
}

func (m *RWMutex) Lock() {
	simrt.Gate("wlock", func() bool { return m.writer.Load() == 0 && m.readers.Load() == 0 })
	m.mu.Lock()
	m.writer.Store(1)
}
func (m *RWMutex) Unlock() { m.writer.Store(0); m.mu.Unlock() }
func (m *RWMutex) RLock() {
	simrt.Gate("rlock", func() bool { return m.writer.Load() == 0 })
	m.mu.RLock()
	m.readers.Add(1)
}
func (m *RWMutex) RUnlock()        { m.readers.Add(-1); m.mu.RUnlock() }
func (m *RWMutex) RLocker() Locker { return (*rlocker)(m) }

type rlocker RWMutex

func (r *rlocker) Lock()   { (*RWMutex)(r).RLock() }
func (r *rlocker) Unlock() { (*RWMutex)(r).RUnlock() }

type Once struct {
	once  gosync.Once
	state atomic.Int32 // 0 idle 1 running 2 done
}

func (o *Once) Do(f func()) {
	simrt.Gate("once", func() bool { return o.state.Load() != 1 })
	if o.state.Load() == 0 {
		o.state.Store(1)
		defer o.state.Store(2)
	}
	o.once.Do(f)
}

type WaitGroup struct{ wg gosync.WaitGroup }

func (w *WaitGroup) Add(n int) { simrt.Gate("wg.add", nil); w.wg.Add(n) }
func (w *WaitGroup) Done()     { simrt.Gate("wg.done", nil); w.wg.Done() }
func (w *WaitGroup) Wait()     { simrt.Gate("wg.wait", nil); w.wg.Wait() }
func (w *WaitGroup) Go(f func()) {
	w.Add(1)
	simrt.Go("wg.Go", func() { defer w.Done(); f() })
}

// Pool is a simulated sync.Pool: retention is a simulator decision. In the
// default mode Get returns the most recently Put object (what the runtime's
// per-P cache usually does); in adversarial mode the schedule tape picks any
// retained object or a fresh one, which is equally legal for a pool.
type Pool struct {
	New   func() any
	mu    gosync.Mutex
	items []any
}

var (
	adversarial atomic.Bool
	// PoolGets / PoolStale / PoolFresh count outcomes for the evidence.
	PoolGets, PoolStale, PoolFresh atomic.Int64
)

func SetAdversarialPools(on bool) { adversarial.Store(on) }

//go:norace
func (p *Pool) take(choice int) any {
	simrt.RaceOff()
	defer simrt.RaceOn()
	p.mu.Lock()
	defer p.mu.Unlock()
	n := len(p.items)
	if n == 0 {
		return nil
	}
	PoolGets.Add(1)
	if choice == 7 {
		PoolFresh.Add(1)
		return nil
	}
	i := n - 1 - choice%n
	if i != n-1 {
		PoolStale.Add(1)
	}
	v := p.items[i]
	p.items = append(p.items[:i], p.items[i+1:]...)
	return v
}

//go:norace
func (p *Pool) put(v any) {
	simrt.RaceOff()
	p.mu.Lock()
	p.items = append(p.items, v)
	p.mu.Unlock()
	simrt.RaceOn()
}

func (p *Pool) Get() any {
	n := 0
	if adversarial.Load() {
		n = 8
	}
	choice := simrt.GateN("pool.get", n, nil)
	v := p.take(choice)
	if v != nil {
		simrt.RaceAcquire(unsafe.Pointer(p))
		return v
	}
	if p.New != nil {
		return p.New()
	}
	return nil
}

func (p *Pool) Put(v any) {
	if v == nil {
		return
	}
	simrt.Gate("pool.put", nil)
	simrt.RaceReleaseMerge(unsafe.Pointer(p))
	p.put(v)
}

// Map is sync.Map with insertion-ordered Range.
type Map struct {
	m    gosync.Map
	mu   gosync.Mutex
	keys []any
}

func (m *Map) addKey(k any) {
	m.mu.Lock()
	m.keys = append(m.keys, k)
	m.mu.Unlock()
}
func (m *Map) delKey(k any) {
	m.mu.Lock()
	for i, kk := range m.keys {
		if kk == k {
			m.keys = append(m.keys[:i], m.keys[i+1:]...)
			break
		}
	}
	m.mu.Unlock()
}

func (m *Map) Load(k any) (any, bool) { simrt.Gate("map.load", nil); return m.m.Load(k) }
func (m *Map) Store(k, v any) {
	simrt.Gate("map.store", nil)
	if _, loaded := m.m.Swap(k, v); !loaded {
		m.addKey(k)
	}
}
func (m *Map) Swap(k, v any) (any, bool) {
	simrt.Gate("map.swap", nil)
	p, loaded := m.m.Swap(k, v)
	if !loaded {
		m.addKey(k)
	}
	return p, loaded
}
func (m *Map) LoadOrStore(k, v any) (any, bool) {
	simrt.Gate("map.loadorstore", nil)
	a, loaded := m.m.LoadOrStore(k, v)
	if !loaded {
		m.addKey(k)
	}
	return a, loaded
}
func (m *Map) LoadAndDelete(k any) (any, bool) {
	simrt.Gate("map.loadanddelete", nil)
	v, loaded := m.m.LoadAndDelete(k)
	if loaded {
		m.delKey(k)
	}
	return v, loaded
}
func (m *Map) Delete(k any) {
	simrt.Gate("map.delete", nil)
	if _, loaded := m.m.LoadAndDelete(k); loaded {
		m.delKey(k)
	}
}
func (m *Map) CompareAndSwap(k, o, n any) bool {
	simrt.Gate("map.cas", nil)
	return m.m.CompareAndSwap(k, o, n)
}
func (m *Map) CompareAndDelete(k, o any) bool {
	simrt.Gate("map.cad", nil)
	if m.m.CompareAndDelete(k, o) {
		m.delKey(k)
		return true
	}
	return false
}
func (m *Map) Clear() {
	simrt.Gate("map.clear", nil)
	m.m.Clear()
	m.mu.Lock()
	m.keys = nil
	m.mu.Unlock()
}
func (m *Map) Range(f func(k, v any) bool) {
	simrt.Gate("map.range", nil)
	m.mu.Lock()
	ks := append([]any(nil), m.keys...)
	m.mu.Unlock()
	for _, k := range ks {
		if v, ok := m.m.Load(k); ok {
			if !f(k, v) {
				return
			}
		}
	}
}

// OrderedRange iterates a map in a deterministic key order.
func OrderedRange[M ~map[K]V, K comparable, V any](m M) iter.Seq2[K, V] {
	keys := make([]K, 0, len(m))
	for k := range m {
		keys = append(keys, k)
	}
	sort.Slice(keys, func(i, j int) bool { return simrt.KeyLess(keys[i], keys[j]) })
	return func(yield func(K, V) bool) {
		for _, k := range keys {
			v, ok := m[k]
			if !ok {
				continue
			}
			if !yield(k, v) {
				return
			}
		}
	}
}

func OnceFunc(f func()) func() { var o Once; return func() { o.Do(f) } }
