package harness

import (
	"net"
	"strconv"
	"bytes"
	"fmt"
	"io"
	"mime/multipart"
	"os"
	"path/filepath"
	"strings"
	"sync"
	"time"

	"github.com/valyala/fasthttp"
	"verif/simrt/simnet"
)

// C35: multipart forms round-trip; upload temp files do not outlive the request.

type c35File struct {
	Field string `json:"field"`
	Name  string `json:"name"`
	Size  int    `json:"size"`
}

type c35Req struct {
	ID      string     `json:"id"`
	Kind    string     `json:"kind"` // upload | get | abort | timeout-upload
	Fields  [][2]string `json:"fields"`
	Files   []c35File  `json:"files"`
	Parse   bool       `json:"handler_parses"`
	Chunked bool       `json:"chunked"`
	AbortAt int        `json:"abort_at_pct"`
	LimitDelta int     `json:"parse_limit_minus_body_len,omitempty"` // handler parses with MultipartFormWithLimit(len(body)+delta); 0: no limit
	Epilogue int       `json:"epilogue_bytes,omitempty"`           // bytes after the closing boundary (inside the body)
	Hijack  bool       `json:"handler_hijacks,omitempty"`
}

type c35Plan struct {
	Stream   bool       `json:"stream_request_body"`
	NoPre    bool       `json:"disable_preparse"`
	KeepHijacked bool   `json:"keep_hijacked_conns,omitempty"`
	Conns    [][]c35Req `json:"conns"`
}

func init() { scenarios["C35"] = scenC35 }

func scenC35(e *Env) func() {
	p := &c35Plan{Stream: e.Chance(70), NoPre: e.Chance(40), KeepHijacked: e.Chance(30)}
	nconn := e.Range(1, 3)
	for ci := 0; ci < nconn; ci++ {
		var rs []c35Req
		n := e.Range(2, 5)
		for i := 0; i < n; i++ {
			r := c35Req{ID: fmt.Sprintf("%d-%d", ci, i), Kind: Pick(e, "upload", "upload", "upload", "upload", "get", "post", "abort", "timeout-upload"), Parse: e.Chance(80), Chunked: e.Chance(25)}
			if r.Kind == "upload" {
				if e.Chance(25) {
					r.LimitDelta = Pick(e, -1, -1, -2, -40, 1, 1000)
					r.Epilogue = Pick(e, 0, 0, 2, 30)
				}
				r.Hijack = e.Chance(12)
			}
			if r.Kind != "get" && r.Kind != "post" {
				nf := e.Range(0, 2)
				for j := 0; j < nf; j++ {
					r.Fields = append(r.Fields, [2]string{fmt.Sprintf("field%d", j), fmt.Sprintf("value-%s-%d %s", r.ID, j, Pick(e, "", "with spaces", "üñí", "a=b&c"))})
				}
				nfl := e.Range(1, 3)
				for j := 0; j < nfl; j++ {
					sizes := []int{0, 100, 8000, 8193, 9000, 20000, 100000}
					if e.Thorough() && e.Chance(4) {
						sizes = append(sizes, 17<<20)
					}
					r.Files = append(r.Files, c35File{Field: fmt.Sprintf("file%d", j%2), Name: fmt.Sprintf("f-%s-%d.bin", r.ID, j), Size: sizes[e.Int(len(sizes))]})
				}
				r.AbortAt = Pick(e, 10, 50, 90)
			}
			rs = append(rs, r)
		}
		rs = append(rs, c35Req{ID: fmt.Sprintf("%d-last", ci), Kind: "get"})
		p.Conns = append(p.Conns, rs)
	}
	e.Sample = p
	return func() { c35Run(e, p) }
}

func c35Body(r *c35Req) (body []byte, ctype string) {
	var b bytes.Buffer
	w := multipart.NewWriter(&b)
	w.SetBoundary("c35boundary" + strings.ReplaceAll(r.ID, "-", "x"))
	for _, f := range r.Fields {
		w.WriteField(f[0], f[1])
	}
	for _, f := range r.Files {
		fw, _ := w.CreateFormFile(f.Field, f.Name)
		fw.Write(bodyPat("c35"+f.Name, f.Size))
	}
	w.Close()
	if r.Epilogue > 0 {
		b.WriteString("\r\n" + strings.Repeat("e", r.Epilogue))
	}
	return b.Bytes(), w.FormDataContentType()
}

// files created by requests that ended with TimeoutError are excepted by the property
var c35Exempt = map[string]bool{}
var c35Mu sync.Mutex

func tmpCensus(dir string) []string {
	var out []string
	ents, _ := os.ReadDir(dir)
	c35Mu.Lock()
	defer c35Mu.Unlock()
	for _, en := range ents {
		if !c35Exempt[en.Name()] {
			out = append(out, en.Name())
		}
	}
	return out
}

func c35Run(e *Env, p *c35Plan) {
	tmp := filepath.Join(os.TempDir(), fmt.Sprintf("c35-%d-%d", e.Seed, os.Getpid()))
	os.MkdirAll(tmp, 0o755)
	oldTmp := os.Getenv("TMPDIR")
	os.Setenv("TMPDIR", tmp)
	defer func() {
		os.Setenv("TMPDIR", oldTmp)
		os.RemoveAll(tmp)
	}()
	byID := map[string]*c35Req{}
	for ci := range p.Conns {
		for i := range p.Conns[ci] {
			byID[p.Conns[ci][i].ID] = &p.Conns[ci][i]
		}
	}
	s := &fasthttp.Server{StreamRequestBody: p.Stream, DisablePreParseMultipartForm: p.NoPre, MaxRequestBodySize: 64 << 20, IdleTimeout: time.Minute, ReadTimeout: 2 * time.Minute, KeepHijackedConns: p.KeepHijacked}
	k := NewServerKit(e, s)
	k.SkipBody = true
	var mu sync.Mutex
	sawTemp := 0
	k.Handle = func(ctx *fasthttp.RequestCtx, inv *Inv) {
		id := string(ctx.QueryArgs().Peek("id"))
		r := byID[id]
		// census at handler entry: files left by earlier requests of this
		// (sequentially used) server would show up here
		if inv.Idx > 0 || true {
			if left := tmpCensus(tmp); len(left) > 0 && ctx.Request.Header.MultipartFormBoundary() == nil {
				e.Violation("temp-files-at-next-request", "request %s: %d temporary files of earlier requests still exist when its handler starts: %v", id, len(left), left)
				return
			}
		}
		if r == nil || r.Kind == "get" || r.Kind == "post" {
			ctx.Request.Body()
			ctx.SetBodyString("ok")
			return
		}
		if !r.Parse {
			ctx.SetBodyString("unparsed")
			return
		}
		var f *multipart.Form
		var err error
		if lim, _ := strconv.Atoi(string(ctx.QueryArgs().Peek("limit"))); lim > 0 {
			f, err = ctx.MultipartFormWithLimit(lim)
			e.Probe("parse-with-limit")
		} else {
			f, err = ctx.MultipartForm()
		}
		if r.Hijack {
			// the connection is taken over after the upload was parsed: its temporary
			// files still belong to the request and go when the connection does
			ctx.Hijack(func(c net.Conn) {
				c.Write([]byte("HIJACKED"))
				if p.KeepHijacked {
					c.Close()
				}
			})
		}
		if err != nil {
			ctx.SetBodyString("parse-error")
			return
		}
		if n := len(tmpCensus(tmp)); n > 0 {
			mu.Lock()
			sawTemp += n
			mu.Unlock()
			e.Probe("temp-file-created")
		}
		e.Ob(1)
		// values and files as sent
		for _, kv := range r.Fields {
			if v := f.Value[kv[0]]; len(v) != 1 || v[0] != kv[1] {
				e.Violation("form-value", "request %s: field %s parsed as %q, sent %q", id, kv[0], v, kv[1])
				return
			}
		}
		nfiles := 0
		for _, fhs := range f.File {
			nfiles += len(fhs)
		}
		if nfiles != len(r.Files) {
			e.Violation("form-files", "request %s: %d files parsed, %d sent", id, nfiles, len(r.Files))
			return
		}
		idx := map[string]int{}
		for _, sf := range r.Files {
			fhs := f.File[sf.Field]
			i := idx[sf.Field]
			idx[sf.Field]++
			if i >= len(fhs) || fhs[i].Filename != sf.Name {
				e.Violation("form-files", "request %s: file %s missing or out of order", id, sf.Name)
				return
			}
			fh, err := fhs[i].Open()
			if err != nil {
				e.Violation("form-file-open", "request %s: cannot open %s: %v", id, sf.Name, err)
				return
			}
			got, _ := io.ReadAll(fh)
			fh.Close()
			if !bytes.Equal(got, bodyPat("c35"+sf.Name, sf.Size)) {
				e.Violation("form-file-content", "request %s: file %s has %d bytes (sent %d), first difference at %d", id, sf.Name, len(got), sf.Size, firstDiff(got, bodyPat("c35"+sf.Name, sf.Size)))
				return
			}
		}
		// the request body of a parsed form is the form written back: it parses to the same form
		// (a body that was streamed has been consumed by the parser: not this rule's subject)
		if rb := []byte(nil); !p.Stream {
			rb = ctx.Request.Body()
			e.Ob(1)
			f3, err := multipart.NewReader(bytes.NewReader(rb), string(ctx.Request.Header.MultipartFormBoundary())).ReadForm(1 << 30)
			if err != nil {
				e.Violation("body-of-form", "request %s: Request.Body() of a parsed multipart request (%d bytes) does not parse as the form: %v", id, len(rb), err)
				return
			}
			for _, kv := range r.Fields {
				if v := f3.Value[kv[0]]; len(v) != 1 || v[0] != kv[1] {
					f3.RemoveAll()
					e.Violation("body-of-form", "request %s: Request.Body() of a parsed multipart request lost field %s (%q)", id, kv[0], v)
					return
				}
			}
			n3 := 0
			for _, fhs := range f3.File {
				n3 += len(fhs)
			}
			f3.RemoveAll()
			if n3 != len(r.Files) {
				e.Violation("body-of-form", "request %s: Request.Body() of a parsed multipart request holds %d files, %d were sent", id, n3, len(r.Files))
				return
			}
		}
		// WriteMultipartForm round trip
		var wb bytes.Buffer
		if err := fasthttp.WriteMultipartForm(&wb, f, "roundtripboundary"); err != nil {
			e.Violation("write-form", "request %s: WriteMultipartForm: %v", id, err)
			return
		}
		f2, err := multipart.NewReader(&wb, "roundtripboundary").ReadForm(1 << 30)
		if err != nil {
			e.Violation("write-form-parse", "request %s: the output of WriteMultipartForm does not parse: %v", id, err)
			return
		}
		for kk, v := range f.Value {
			if strings.Join(f2.Value[kk], "|") != strings.Join(v, "|") {
				e.Violation("write-form-values", "request %s: value %s does not round-trip", id, kk)
				return
			}
		}
		for kk, fhs := range f.File {
			if len(f2.File[kk]) != len(fhs) {
				e.Violation("write-form-files", "request %s: files under %s do not round-trip", id, kk)
				return
			}
			for i := range fhs {
				a, _ := fhs[i].Open()
				b, _ := f2.File[kk][i].Open()
				ab, _ := io.ReadAll(a)
				bb, _ := io.ReadAll(b)
				a.Close()
				b.Close()
				if !bytes.Equal(ab, bb) || fhs[i].Filename != f2.File[kk][i].Filename {
					e.Violation("write-form-files", "request %s: file %s does not round-trip", id, fhs[i].Filename)
					return
				}
			}
		}
		f2.RemoveAll()
		if r.Kind == "timeout-upload" {
			for _, n := range tmpCensus(tmp) {
				c35Mu.Lock()
				c35Exempt[n] = true
				c35Mu.Unlock()
			}
			ctx.TimeoutError("upload timed out")
			return
		}
		ctx.SetBodyString("parsed")
	}
	k.Start()
	for ci := range p.Conns {
		var sc *SeqClient
		timedOut := false
		for i := range p.Conns[ci] {
			r := &p.Conns[ci][i]
			if sc == nil {
				var err error
				if sc, err = k.NewSeqClient("10.0.35.1", simnet.Faults{}); err != nil {
					return
				}
			}
			if r.Kind == "get" {
				sc.Send([]byte(fmt.Sprintf("GET /u?id=%s HTTP/1.1\r\nHost: x\r\n\r\n", r.ID)), nil)
			} else if r.Kind == "post" {
				sc.Send([]byte(fmt.Sprintf("POST /u?id=%s HTTP/1.1\r\nHost: x\r\nContent-Type: text/plain\r\nContent-Length: 12\r\n\r\nordinarybody", r.ID)), nil)
			} else {
				body, ctype := c35Body(r)
				var req bytes.Buffer
				lim := ""
				if r.LimitDelta != 0 && len(body)+r.LimitDelta > 0 {
					lim = fmt.Sprintf("&limit=%d", len(body)+r.LimitDelta)
				}
				fmt.Fprintf(&req, "POST /u?id=%s%s HTTP/1.1\r\nHost: x\r\nContent-Type: %s\r\n", r.ID, lim, ctype)
				if r.Chunked {
					req.WriteString("Transfer-Encoding: chunked\r\n\r\n")
					for off := 0; off < len(body); off += 5000 {
						end := min(off+5000, len(body))
						fmt.Fprintf(&req, "%x\r\n", end-off)
						req.Write(body[off:end])
						req.WriteString("\r\n")
					}
					req.WriteString("0\r\n\r\n")
				} else {
					fmt.Fprintf(&req, "Content-Length: %d\r\n\r\n", len(body))
					req.Write(body)
				}
				data := req.Bytes()
				if r.Kind == "abort" {
					cut := len(data) * r.AbortAt / 100
					sc.Send(data[:cut], nil)
					time.Sleep(50 * time.Millisecond)
					sc.C.Reset()
					e.Fault("client_abort")
					sc = nil
					time.Sleep(5 * time.Second)
					e.Ob(1)
					if left := tmpCensus(tmp); len(left) > 0 {
						e.Violation("temp-files-after-abort", "upload %s aborted after %d%% and the connection is closed: %d temporary files remain: %v", r.ID, r.AbortAt, len(left), left)
						return
					}
					continue
				}
				wd := make(chan struct{})
				Go("c35-writer", func() { sc.Send(data, nil); close(wd) })
				defer func() { <-wd }()
			}
			resp, _, err := sc.ReadResp("GET", 3*time.Minute)
			if err != nil {
				sc.C.Close()
				sc = nil
				continue
			}
			e.Nontrivial = true
			if r.Kind == "timeout-upload" && resp.Status == 408 {
				timedOut = true // excepted by the property
			}
			if r.Hijack {
				// the server is done with this connection once the hijack handler returned
				time.Sleep(2 * time.Second)
				sc.C.Close()
				sc = nil
				time.Sleep(3 * time.Second)
				continue
			}
			if resp.Close {
				// wait until the server has really closed the connection: the
				// property speaks about the moment the connection is closed
				sc.ProbeClosed(time.Minute)
				sc.C.Close()
				sc = nil
			}
		}
		if sc != nil {
			sc.C.Close()
		}
		// connection closed: nothing may remain (timed-out requests excepted)
		time.Sleep(5 * time.Second)
		e.Ob(1)
		if left := tmpCensus(tmp); len(left) > 0 && !timedOut {
			e.Violation("temp-files-after-close", "connection %d is closed and %d temporary upload files remain: %v", ci, len(left), left)
			return
		}
		for _, n := range tmpCensus(tmp) {
			os.Remove(filepath.Join(tmp, n))
		}
	}
	k.Shutdown(time.Minute)
}
