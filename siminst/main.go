// siminst (spike): copy a Go module tree and rewrite it for the simulator.
//
//	siminst <srcdir> <dstdir>
package main

import (
	"bytes"
	"fmt"
	"go/ast"
	"go/build"
	"go/format"
	"go/importer"
	"go/parser"
	"go/token"
	"go/types"
	"io/fs"
	"os"
	"path/filepath"
	"strconv"
	"strings"
)

var pkgDirs = []string{".", "fasthttputil", "stackless", "prefork", "fasthttpadaptor", "fasthttpproxy", "reuseport", "tcplisten", "expvarhandler", "pprofhandler"}

var instrumentDirs = []string{".", "fasthttputil", "stackless", "fasthttpadaptor", "prefork"}

// selector substitutions: pkgpath.Name -> simpkg.Name (simpkg given as import name + path)
type subst struct{ name, path, sel string }

var substs = map[string]subst{
	"runtime.GOMAXPROCS": {"simrt", "verif/simrt", "GOMAXPROCS"},
	"runtime.AddCleanup": {"simrt", "verif/simrt", "AddCleanup"},
}

// per-file substitutions (file base name -> selector -> replacement)
var fileSubsts = map[string]map[string]subst{
	"tcpdialer.go": {"net.Dialer": {"simnet", "verif/simrt/simnet", "Dialer"}},
	"prefork.go":   {"os/exec.Cmd": {"simexec", "verif/simrt/simexec", "Cmd"}},
	"fs.go": {
		"os.Open":       {"simfs", "verif/simrt/simfs", "Open"},
		"os.Stat":       {"simfs", "verif/simrt/simfs", "Stat"},
		"os.MkdirAll":   {"simfs", "verif/simrt/simfs", "MkdirAll"},
		"os.CreateTemp": {"simfs", "verif/simrt/simfs", "CreateTemp"},
		"os.Remove":     {"simfs", "verif/simrt/simfs", "Remove"},
		"os.Chtimes":    {"simfs", "verif/simrt/simfs", "Chtimes"},
		"os.Rename":     {"simfs", "verif/simrt/simfs", "Rename"},
	},
}

var sharedImporter types.Importer

func main() {
	src, dst := os.Args[1], os.Args[2]
	must(os.MkdirAll(dst, 0o755))
	// copy everything except tests and .git
	must(filepath.WalkDir(src, func(p string, d fs.DirEntry, err error) error {
		if err != nil {
			return err
		}
		rel, _ := filepath.Rel(src, p)
		if d.IsDir() {
			if d.Name() == ".git" || d.Name() == "examples" || d.Name() == "testdata" {
				return filepath.SkipDir
			}
			return os.MkdirAll(filepath.Join(dst, rel), 0o755)
		}
		if strings.HasSuffix(p, "_test.go") {
			return nil
		}
		if !strings.HasSuffix(p, ".go") && d.Name() != "go.mod" && d.Name() != "go.sum" {
			return nil
		}
		b, err := os.ReadFile(p)
		if err != nil {
			return err
		}
		return os.WriteFile(filepath.Join(dst, rel), b, 0o644)
	}))
	must(os.Chdir(src))
	dirs := instrumentDirs
	if len(os.Args) > 3 {
		dirs = strings.Split(os.Args[3], ",")
	}
	for _, dir := range dirs {
		if _, err := os.Stat(filepath.Join(src, dir)); err != nil {
			continue
		}
		instrumentPkg(src, dst, dir)
	}
}

func must(err error) {
	if err != nil {
		fmt.Fprintln(os.Stderr, "siminst:", err)
		os.Exit(2)
	}
}

type rewriter struct {
	fset   *token.FileSet
	info   *types.Info
	file   *ast.File
	fname  string
	needRT bool // needs import "verif/simrt"
	needSS bool // needs simsync for OrderedRange (imported as sync anyway?)
	nsel   int
	curFn  string
	// labels used by goto / break
	gotoLabels  map[string]bool
	breakLabels map[string]bool
}

func instrumentPkg(src, dst, dir string) {
	ctx := build.Default
	fset := token.NewFileSet()
	ents, err := os.ReadDir(filepath.Join(src, dir))
	must(err)
	var files []*ast.File
	var names []string
	for _, e := range ents {
		n := e.Name()
		if e.IsDir() || !strings.HasSuffix(n, ".go") || strings.HasSuffix(n, "_test.go") {
			continue
		}
		ok, err := ctx.MatchFile(filepath.Join(src, dir), n)
		must(err)
		if !ok {
			continue
		}
		f, err := parser.ParseFile(fset, filepath.Join(src, dir, n), nil, parser.ParseComments)
		must(err)
		if f.Name.Name == "main" { // generators
			continue
		}
		files = append(files, f)
		names = append(names, n)
	}
	info := &types.Info{Types: map[ast.Expr]types.TypeAndValue{}, Uses: map[*ast.Ident]types.Object{}, Defs: map[*ast.Ident]types.Object{}}
	if sharedImporter == nil {
		sharedImporter = importer.ForCompiler(token.NewFileSet(), "source", nil)
	}
	conf := types.Config{Importer: sharedImporter, Error: func(err error) {}}
	_, err = conf.Check("p", fset, files, info)
	if err != nil {
		fmt.Fprintln(os.Stderr, "siminst: typecheck", dir, err)
		os.Exit(2)
	}
	for i, f := range files {
		rw := &rewriter{fset: fset, info: info, file: f, fname: names[i], gotoLabels: map[string]bool{}, breakLabels: map[string]bool{}}
		rw.run()
		var buf bytes.Buffer
		must(format.Node(&buf, fset, f))
		must(os.WriteFile(filepath.Join(dst, dir, names[i]), buf.Bytes(), 0o644))
	}
}

func (rw *rewriter) site(pos token.Pos) string {
	p := rw.fset.Position(pos)
	return fmt.Sprintf("%s:%d:%s", rw.fname, p.Line, rw.curFn)
}

func (rw *rewriter) run() {
	f := rw.file
	// 1. import swaps
	for _, im := range f.Imports {
		path, _ := strconv.Unquote(im.Path.Value)
		switch path {
		case "sync":
			im.Path.Value = strconv.Quote("verif/simrt/simsync")
			if im.Name == nil {
				im.Name = ast.NewIdent("sync")
			}
		case "sync/atomic":
			im.Path.Value = strconv.Quote("verif/simrt/atomic")
		}
	}
	rw.substitute()
	ast.Inspect(f, func(n ast.Node) bool {
		if b, ok := n.(*ast.BranchStmt); ok && b.Label != nil {
			if b.Tok == token.GOTO {
				rw.gotoLabels[b.Label.Name] = true
			} else {
				rw.breakLabels[b.Label.Name] = true
			}
		}
		return true
	})
	for _, d := range f.Decls {
		fd, ok := d.(*ast.FuncDecl)
		if !ok || fd.Body == nil {
			// package-level var initialisers with func literals
			if gd, ok := d.(*ast.GenDecl); ok {
				rw.curFn = "init"
				ast.Inspect(gd, func(n ast.Node) bool {
					if fl, ok := n.(*ast.FuncLit); ok {
						rw.block(fl.Body)
						return false
					}
					return true
				})
			}
			continue
		}
		rw.curFn = fd.Name.Name
		if fd.Recv != nil && len(fd.Recv.List) > 0 {
			rw.curFn = typeName(fd.Recv.List[0].Type) + "." + fd.Name.Name
		}
		rw.block(fd.Body)
	}
	if rw.needRT && !hasImport(f, "verif/simrt") {
		addImport(f, "simrt", "verif/simrt")
	}
	if rw.needSS {
		addImport(f, "simsync", "verif/simrt/simsync")
	}
}

// substitute applies the selector substitution tables and rewrites
// time.AfterFunc; imports left without uses are removed.
func (rw *rewriter) substitute() {
	f := rw.file
	uses := map[*types.PkgName]int{}
	replaced := map[*types.PkgName]int{}
	ast.Inspect(f, func(n ast.Node) bool {
		if id, ok := n.(*ast.Ident); ok {
			if pn, ok := rw.info.Uses[id].(*types.PkgName); ok {
				uses[pn]++
			}
		}
		return true
	})
	need := map[string]string{}
	ast.Inspect(f, func(n ast.Node) bool {
		switch x := n.(type) {
		case *ast.CallExpr:
			if sel, ok := x.Fun.(*ast.SelectorExpr); ok {
				if id, ok := sel.X.(*ast.Ident); ok {
					if pn, ok := rw.info.Uses[id].(*types.PkgName); ok && pn.Imported().Path() == "time" && sel.Sel.Name == "AfterFunc" {
						p := rw.fset.Position(x.Pos())
						site := fmt.Sprintf("%s:%d", rw.fname, p.Line)
						x.Fun = &ast.SelectorExpr{X: ast.NewIdent("simrt"), Sel: ast.NewIdent("AfterFunc")}
						x.Args = append([]ast.Expr{&ast.BasicLit{Kind: token.STRING, Value: strconv.Quote(site)}}, x.Args...)
						replaced[pn]++
						need["simrt"] = "verif/simrt"
					}
				}
			}
		case *ast.SelectorExpr:
			id, ok := x.X.(*ast.Ident)
			if !ok {
				return true
			}
			pn, ok := rw.info.Uses[id].(*types.PkgName)
			if !ok {
				return true
			}
			key := pn.Imported().Path() + "." + x.Sel.Name
			sb, ok := substs[key]
			if fs := fileSubsts[rw.fname]; fs != nil {
				if s2, ok2 := fs[key]; ok2 {
					sb, ok = s2, true
				}
			}
			if !ok {
				return true
			}
			x.X = ast.NewIdent(sb.name)
			x.Sel = ast.NewIdent(sb.sel)
			replaced[pn]++
			need[sb.name] = sb.path
		}
		return true
	})
	for name, path := range need {
		if !hasImport(f, path) {
			addImport(f, name, path)
		}
	}
	// drop imports whose every use was replaced
	for pn, n := range replaced {
		if uses[pn] != n {
			continue
		}
		path := pn.Imported().Path()
		for _, d := range f.Decls {
			gd, ok := d.(*ast.GenDecl)
			if !ok || gd.Tok != token.IMPORT {
				continue
			}
			for i, sp := range gd.Specs {
				is := sp.(*ast.ImportSpec)
				if p, _ := strconv.Unquote(is.Path.Value); p == path {
					gd.Specs = append(gd.Specs[:i], gd.Specs[i+1:]...)
					break
				}
			}
		}
		for i, is := range f.Imports {
			if p, _ := strconv.Unquote(is.Path.Value); p == path {
				f.Imports = append(f.Imports[:i], f.Imports[i+1:]...)
				break
			}
		}
	}
}

func typeName(e ast.Expr) string {
	switch t := e.(type) {
	case *ast.StarExpr:
		return typeName(t.X)
	case *ast.Ident:
		return t.Name
	case *ast.IndexExpr:
		return typeName(t.X)
	}
	return "?"
}

func hasImport(f *ast.File, path string) bool {
	for _, im := range f.Imports {
		if p, _ := strconv.Unquote(im.Path.Value); p == path {
			return true
		}
	}
	return false
}

func addImport(f *ast.File, name, path string) {
	spec := &ast.ImportSpec{Name: ast.NewIdent(name), Path: &ast.BasicLit{Kind: token.STRING, Value: strconv.Quote(path)}}
	for _, d := range f.Decls {
		if gd, ok := d.(*ast.GenDecl); ok && gd.Tok == token.IMPORT {
			gd.Specs = append(gd.Specs, spec)
			if gd.Lparen == token.NoPos {
				gd.Lparen = gd.Pos()
				gd.Rparen = gd.End()
			}
			f.Imports = append(f.Imports, spec)
			return
		}
	}
	gd := &ast.GenDecl{Tok: token.IMPORT, Specs: []ast.Spec{spec}}
	f.Decls = append([]ast.Decl{gd}, f.Decls...)
	f.Imports = append(f.Imports, spec)
}

// block rewrites the statements of a block in place.
func (rw *rewriter) block(b *ast.BlockStmt) {
	if b == nil {
		return
	}
	b.List = rw.stmts(b.List)
}

func (rw *rewriter) stmts(list []ast.Stmt) []ast.Stmt {
	var out []ast.Stmt
	for _, s := range list {
		out = append(out, rw.stmt(s)...)
	}
	return out
}

func (rw *rewriter) yieldStmt(pos token.Pos) ast.Stmt {
	rw.needRT = true
	return &ast.ExprStmt{X: &ast.CallExpr{
		Fun:  &ast.SelectorExpr{X: ast.NewIdent("simrt"), Sel: ast.NewIdent("Yield")},
		Args: []ast.Expr{&ast.BasicLit{Kind: token.STRING, Value: strconv.Quote(rw.site(pos))}},
	}}
}

// stmt returns the replacement statements for s.
func (rw *rewriter) stmt(s ast.Stmt) []ast.Stmt {
	// descend into function literals anywhere in the statement first
	rw.funcLits(s)
	switch st := s.(type) {
	case *ast.BlockStmt:
		rw.block(st)
		return []ast.Stmt{st}
	case *ast.IfStmt:
		rw.block(st.Body)
		if st.Else != nil {
			r := rw.stmt(st.Else)
			if len(r) == 1 {
				st.Else = r[0]
			} else {
				st.Else = &ast.BlockStmt{List: r}
			}
		}
		if rw.shallowChanOp(st.Init) || rw.shallowChanOpExpr(st.Cond) {
			return []ast.Stmt{rw.yieldStmt(st.Pos()), st}
		}
		return []ast.Stmt{st}
	case *ast.ForStmt:
		rw.block(st.Body)
		return []ast.Stmt{st}
	case *ast.RangeStmt:
		rw.block(st.Body)
		if tv, ok := rw.info.Types[st.X]; ok && tv.Type != nil {
			switch tv.Type.Underlying().(type) {
			case *types.Chan:
				st.Body.List = append(st.Body.List, rw.yieldStmt(st.Pos()))
				return []ast.Stmt{rw.yieldStmt(st.Pos()), st}
			case *types.Map:
				// sync is imported as simsync under the name "sync" only if the file imports sync
				rw.needSS = true
				st.X = &ast.CallExpr{Fun: &ast.SelectorExpr{X: ast.NewIdent("simsync"), Sel: ast.NewIdent("OrderedRange")}, Args: []ast.Expr{st.X}}
			}
		}
		return []ast.Stmt{st}
	case *ast.SwitchStmt:
		for _, c := range st.Body.List {
			cc := c.(*ast.CaseClause)
			cc.Body = rw.stmts(cc.Body)
		}
		return []ast.Stmt{st}
	case *ast.TypeSwitchStmt:
		for _, c := range st.Body.List {
			cc := c.(*ast.CaseClause)
			cc.Body = rw.stmts(cc.Body)
		}
		return []ast.Stmt{st}
	case *ast.LabeledStmt:
		if sel, ok := st.Stmt.(*ast.SelectStmt); ok {
			blk, sw := rw.selectStmt(sel)
			if rw.gotoLabels[st.Label.Name] && rw.breakLabels[st.Label.Name] {
				must(fmt.Errorf("label %s used by both goto and break on a select", st.Label.Name))
			}
			if rw.breakLabels[st.Label.Name] {
				// label the switch
				n := len(blk.List)
				blk.List[n-1] = &ast.LabeledStmt{Label: st.Label, Stmt: sw}
				return []ast.Stmt{blk}
			}
			st.Stmt = blk
			return []ast.Stmt{st}
		}
		r := rw.stmt(st.Stmt)
		if len(r) == 1 {
			st.Stmt = r[0]
			return []ast.Stmt{st}
		}
		// yield inserted before: keep label on the first
		st.Stmt = r[0]
		return append([]ast.Stmt{st}, r[1:]...)
	case *ast.SelectStmt:
		blk, _ := rw.selectStmt(st)
		return []ast.Stmt{blk}
	case *ast.GoStmt:
		return rw.goStmt(st)
	case *ast.DeferStmt:
		return []ast.Stmt{st}
	default:
		if rw.shallowChanOp(s) {
			return []ast.Stmt{rw.yieldStmt(s.Pos()), s}
		}
		return []ast.Stmt{s}
	}
}

// funcLits rewrites bodies of function literals nested in s (not descending into nested statements blocks we handle elsewhere).
func (rw *rewriter) funcLits(s ast.Stmt) {
	switch s.(type) {
	case *ast.BlockStmt, *ast.IfStmt, *ast.ForStmt, *ast.RangeStmt, *ast.SwitchStmt, *ast.TypeSwitchStmt, *ast.SelectStmt, *ast.LabeledStmt:
		// their sub-statements are visited by stmt(); but expressions in headers may hold func lits
	}
	ast.Inspect(s, func(n ast.Node) bool {
		switch x := n.(type) {
		case *ast.BlockStmt:
			if n != ast.Node(s) {
				return false // nested blocks are handled by stmt()
			}
		case *ast.FuncLit:
			save := rw.curFn
			rw.curFn = save + ".func"
			rw.block(x.Body)
			rw.curFn = save
			return false
		}
		return true
	})
}

func (rw *rewriter) shallowChanOp(s ast.Stmt) bool {
	if s == nil {
		return false
	}
	found := false
	ast.Inspect(s, func(n ast.Node) bool {
		switch x := n.(type) {
		case *ast.FuncLit, *ast.BlockStmt:
			if n != ast.Node(s) {
				return false
			}
		case *ast.SendStmt:
			found = true
		case *ast.UnaryExpr:
			if x.Op == token.ARROW {
				found = true
			}
		}
		return !found
	})
	return found
}

func (rw *rewriter) shallowChanOpExpr(e ast.Expr) bool {
	if e == nil {
		return false
	}
	return rw.shallowChanOp(&ast.ExprStmt{X: e})
}

func (rw *rewriter) goStmt(g *ast.GoStmt) []ast.Stmt {
	rw.needRT = true
	call := g.Call
	var pre []ast.Stmt
	// hoist arguments (and non-literal function values) so they are evaluated now
	if _, isLit := call.Fun.(*ast.FuncLit); !isLit {
		switch fn := call.Fun.(type) {
		case *ast.Ident:
			// plain function or local func var: leave
			_ = fn
		case *ast.SelectorExpr:
			// method value or pkg.Func: hoist receiver-bound method value unless X is a package
			if id, ok := fn.X.(*ast.Ident); ok {
				if _, isPkg := rw.info.Uses[id].(*types.PkgName); isPkg {
					break
				}
			}
			name := fmt.Sprintf("_simf%d", rw.nsel)
			rw.nsel++
			pre = append(pre, &ast.AssignStmt{Lhs: []ast.Expr{ast.NewIdent(name)}, Tok: token.DEFINE, Rhs: []ast.Expr{call.Fun}})
			call.Fun = ast.NewIdent(name)
		}
	}
	for i, a := range call.Args {
		if tv, ok := rw.info.Types[a]; ok && tv.Value != nil {
			continue // constant
		}
		if id, ok := a.(*ast.Ident); ok && id.Name == "nil" {
			continue
		}
		name := fmt.Sprintf("_sima%d", rw.nsel)
		rw.nsel++
		pre = append(pre, &ast.AssignStmt{Lhs: []ast.Expr{ast.NewIdent(name)}, Tok: token.DEFINE, Rhs: []ast.Expr{a}})
		call.Args[i] = ast.NewIdent(name)
	}
	var body *ast.BlockStmt
	if fl, ok := call.Fun.(*ast.FuncLit); ok && len(call.Args) == 0 && (fl.Type.Params == nil || len(fl.Type.Params.List) == 0) {
		body = fl.Body
	} else {
		body = &ast.BlockStmt{List: []ast.Stmt{&ast.ExprStmt{X: call}}}
	}
	goCall := &ast.ExprStmt{X: &ast.CallExpr{
		Fun: &ast.SelectorExpr{X: ast.NewIdent("simrt"), Sel: ast.NewIdent("Go")},
		Args: []ast.Expr{
			&ast.BasicLit{Kind: token.STRING, Value: strconv.Quote(rw.site(g.Pos()))},
			&ast.FuncLit{Type: &ast.FuncType{Params: &ast.FieldList{}}, Body: body},
		},
	}}
	if len(pre) == 0 {
		return []ast.Stmt{goCall}
	}
	return []ast.Stmt{&ast.BlockStmt{List: append(pre, goCall)}}
}

// selectStmt builds { c0 := simrt.Recv(..); ...; switch simrt.Select(site, hasDefault, c0, ..) { case 0: ... } }
func (rw *rewriter) selectStmt(sel *ast.SelectStmt) (*ast.BlockStmt, *ast.SwitchStmt) {
	rw.needRT = true
	blk := &ast.BlockStmt{}
	sw := &ast.SwitchStmt{Body: &ast.BlockStmt{}}
	hasDefault := false
	var caseIdents []ast.Expr
	idx := 0
	for _, c := range sel.Body.List {
		cc := c.(*ast.CommClause)
		body := rw.stmts(cc.Body)
		if cc.Comm == nil {
			hasDefault = true
			sw.Body.List = append(sw.Body.List, &ast.CaseClause{List: nil, Body: body})
			continue
		}
		name := fmt.Sprintf("_simc%d", rw.nsel)
		rw.nsel++
		var ctor ast.Expr
		var prologue []ast.Stmt
		mk := func(fn string, args ...ast.Expr) ast.Expr {
			return &ast.CallExpr{Fun: &ast.SelectorExpr{X: ast.NewIdent("simrt"), Sel: ast.NewIdent(fn)}, Args: args}
		}
		fieldV := &ast.SelectorExpr{X: ast.NewIdent(name), Sel: ast.NewIdent("V")}
		fieldOK := &ast.SelectorExpr{X: ast.NewIdent(name), Sel: ast.NewIdent("OK")}
		switch comm := cc.Comm.(type) {
		case *ast.SendStmt:
			ctor = mk("Send", comm.Chan, comm.Value)
		case *ast.ExprStmt: // <-ch
			u := comm.X.(*ast.UnaryExpr)
			ctor = mk("Recv", u.X)
		case *ast.AssignStmt: // v := <-ch ; v, ok = <-ch
			u := comm.Rhs[0].(*ast.UnaryExpr)
			ctor = mk("Recv", u.X)
			rhs := []ast.Expr{fieldV}
			if len(comm.Lhs) == 2 {
				rhs = append(rhs, fieldOK)
			}
			prologue = append(prologue, &ast.AssignStmt{Lhs: comm.Lhs, Tok: comm.Tok, Rhs: rhs})
			// silence "declared and not used" for := with idents never used is the author's problem (would not compile originally either)
		}
		blk.List = append(blk.List, &ast.AssignStmt{Lhs: []ast.Expr{ast.NewIdent(name)}, Tok: token.DEFINE, Rhs: []ast.Expr{ctor}})
		caseIdents = append(caseIdents, ast.NewIdent(name))
		sw.Body.List = append(sw.Body.List, &ast.CaseClause{
			List: []ast.Expr{&ast.BasicLit{Kind: token.INT, Value: strconv.Itoa(idx)}},
			Body: append(prologue, body...),
		})
		idx++
	}
	if !hasDefault {
		sw.Body.List = append(sw.Body.List, &ast.CaseClause{List: nil, Body: []ast.Stmt{
			&ast.ExprStmt{X: &ast.CallExpr{Fun: ast.NewIdent("panic"), Args: []ast.Expr{&ast.BasicLit{Kind: token.STRING, Value: strconv.Quote("simrt: bad select index")}}}},
		}})
	}
	args := []ast.Expr{
		&ast.BasicLit{Kind: token.STRING, Value: strconv.Quote(rw.site(sel.Pos()))},
		ast.NewIdent(strconv.FormatBool(hasDefault)),
	}
	args = append(args, caseIdents...)
	sw.Tag = &ast.CallExpr{Fun: &ast.SelectorExpr{X: ast.NewIdent("simrt"), Sel: ast.NewIdent("Select")}, Args: args}
	blk.List = append(blk.List, sw)
	return blk, sw
}
