package harness

import (
	"bufio"
	"bytes"
	"errors"
	"fmt"
	"io"
	"runtime/debug"
	"strings"
	"time"

	"github.com/valyala/fasthttp"
)

// C08: message parsers terminate, never panic and never over-read.

type c08Case struct {
	Target string `json:"target"` // request | response | reqheader | respheader | values
	Input  string `json:"input"`
	BufSz  int    `json:"bufio_size"`
	Chunk  int    `json:"read_chunk"` // max bytes per Read
	Zero   bool   `json:"zero_reads"`
	ErrAt  int    `json:"err_at"` // -1 none
	ErrKind string `json:"err_kind"`
	MaxBody int   `json:"max_body"`
	Mut    int    `json:"mutations"`
	Resps  []c08Resp `json:"responses,omitempty"`
	Vals   []string  `json:"values,omitempty"`
}

type c08Plan struct {
	Cases []c08Case `json:"cases"`
}

func init() { scenarios["C08"] = scenC08 }

const c08Sentinel = "SENTINEL-TAIL-0123456789"

// c08Resp describes one generated response inside an input.
type c08Resp struct {
	Status string `json:"status"`
	End    int    `json:"end"`   // offset just after this response
	Clean  bool   `json:"clean"` // well-formed framing: End is the RFC 9112 end of the message
}

func genOneResponse(e *Env, b *bytes.Buffer, status string) bool {
	nl := Pick(e, "\r\n", "\r\n", "\r\n", "\n")
	fmt.Fprintf(b, "HTTP/1.1 %s %s%s", status, Pick(e, "OK", "", "Some Text"), nl)
	body := bodyPat("c08"+status, Pick(e, 0, 1, 10, 300, 5000))
	if e.Chance(30) {
		fmt.Fprintf(b, "X-Pad: %s%s", strings.Repeat("p", Pick(e, 1, 100, 3000)), nl)
	}
	bodiless := status == "204" || status == "304" || (status[0] == '1' && status != "101")
	clean := true
	switch Pick(e, "cl", "cl", "chunked", "none", "trailer") {
	case "cl":
		if bodiless {
			body = nil
		}
		fmt.Fprintf(b, "Content-Length: %d%s%s", len(body), nl, nl)
		b.Write(body)
	case "chunked":
		if bodiless {
			fmt.Fprintf(b, "Content-Length: 0%s%s", nl, nl)
			break
		}
		fmt.Fprintf(b, "Transfer-Encoding: chunked%s%s", nl, nl)
		v := Pick(e, "plain", "plain", "ext", "upper", "trailer", "huge", "no-crlf-after-data")
		clean = v != "huge" && v != "no-crlf-after-data"
		b.Write(chunkedEncode(e, body, v))
	case "trailer":
		if bodiless {
			fmt.Fprintf(b, "Content-Length: 0%s%s", nl, nl)
			break
		}
		fmt.Fprintf(b, "Transfer-Encoding: chunked%sTrailer: X-T%s%s", nl, nl, nl)
		b.Write(chunkedEncode(e, body, "trailer"))
	default:
		fmt.Fprintf(b, "Content-Length: 0%s%s", nl, nl)
	}
	return clean
}

// genResponses writes one to three responses back to back (an interim one may
// come first) with pairwise distinct status codes, so that the response a
// parser returns identifies which message it took.
func genResponses(e *Env) ([]byte, []c08Resp) {
	var b bytes.Buffer
	var meta []c08Resp
	finals := []string{"200", "204", "304", "404", "999", "099", "042", "007", "101", "600"} // not "000": StatusCode() reports a zero status as 200
	interims := []string{"100", "102", "103", "199"}
	used := map[string]bool{}
	pick := func(xs []string) string {
		for {
			s := xs[e.Int(len(xs))]
			if !used[s] {
				used[s] = true
				return s
			}
		}
	}
	n := Pick(e, 1, 1, 2, 2, 3)
	for i := 0; i < n; i++ {
		st := pick(finals)
		if i < n-1 && e.Chance(40) {
			st = pick(interims)
		}
		clean := genOneResponse(e, &b, st)
		meta = append(meta, c08Resp{Status: st, End: b.Len(), Clean: clean})
	}
	return b.Bytes(), meta
}

// genValue draws a short string from an alphabet that is adversarial for the
// value parsers (URI, host, args, cookies, ranges, header parameters).
func genValue(e *Env) string {
	toks := []string{"%", "%4", "%41", "%e", "%zz", "%00", "%2f", "%2F..", "+", "=", "&", ";", ",", " ", "\"", "\\", "a", "b", "/", "..", ".", "?", "#", ":", "@", "[", "]", "-", "0", "9",
		"18446744073709551616", "bytes=", "\x00", "\xff", "\t", "::1", "xn--", "é"}
	n := e.Range(0, 8)
	var sb strings.Builder
	for i := 0; i < n; i++ {
		sb.WriteString(toks[e.Int(len(toks))])
	}
	return sb.String()
}

// genValuesRequest is a well-framed request whose target, Host, Cookie, Range
// and Content-Type parameters are adversarial value strings (no CR/LF/NUL in
// the places where they would change the framing).
func genValuesRequest(e *Env) (req []byte, vals []string) {
	clean := func(s string) string {
		return strings.NewReplacer("\r", "", "\n", "", "\x00", "%00", " ", "%20", "\t", "%09").Replace(s)
	}
	target, host, cookie, rng, param := "/"+clean(genValue(e)), clean(genValue(e)), strings.ReplaceAll(genValue(e), "\x00", ""), strings.ReplaceAll(genValue(e), "\x00", ""), strings.ReplaceAll(genValue(e), "\x00", "")
	if e.Chance(30) {
		target = "http://" + host + target
	}
	var b bytes.Buffer
	fmt.Fprintf(&b, "GET %s HTTP/1.1\r\nHost: %s\r\nCookie: %s\r\nRange: bytes=%s\r\nContent-Type: multipart/form-data; boundary=%s\r\nContent-Disposition: form-data; %s\r\n\r\n", target, host, cookie, rng, param, param)
	return b.Bytes(), []string{target, host, cookie, rng, param}
}

func scenC08(e *Env) func() {
	p := &c08Plan{}
	n := e.Range(4, 10)
	// The property is stated for positive body limits only: maxBodySize 0 means
	// "no limit", under which the readers allocate whatever Content-Length
	// announces, so every limit drawn here is positive.
	for i := 0; i < n; i++ {
		c := c08Case{Target: Pick(e, "request", "request", "response", "response", "reqheader", "respheader", "values"), BufSz: Pick(e, 4096, 16, 64, 512, 4096), Chunk: Pick(e, 1<<20, 1, 2, 7, 100), Zero: e.Chance(20), ErrAt: -1, ErrKind: Pick(e, "eof", "unexpected-eof", "timeout", "custom"), MaxBody: Pick(e, 1<<24, 1, 100, 4000, 1<<20)}
		var in []byte
		switch c.Target {
		case "request", "reqheader":
			_, in = genC01Msg(e, fmt.Sprint(i), false)
		case "values":
			if e.Chance(70) {
				in, c.Vals = genValuesRequest(e)
			} else {
				_, in = genC01Msg(e, fmt.Sprint(i), false)
			}
		default:
			in, c.Resps = genResponses(e)
		}
		c.Mut = Pick(e, 0, 0, 0, 1, 2, 5)
		for m := 0; m < c.Mut && len(in) > 0; m++ {
			pos := e.Int(len(in))
			switch Pick(e, "flip", "del", "dup", "nul", "nl", "trunc") {
			case "flip":
				in[pos] ^= byte(1 << e.Int(8))
			case "del":
				in = append(in[:pos], in[pos+1:]...)
			case "dup":
				in = append(in[:pos], append([]byte{in[pos]}, in[pos:]...)...)
			case "nul":
				in[pos] = 0
			case "nl":
				in[pos] = '\n'
			case "trunc":
				in = in[:pos]
			}
		}
		in = append(in, c08Sentinel...)
		c.Input = string(in)
		if e.Chance(35) {
			c.ErrAt = e.Int(len(in) + 1)
		}
		p.Cases = append(p.Cases, c)
	}
	e.Sample = p
	return func() { c08Run(e, p) }
}

type c08Timeout struct{}

func (c08Timeout) Error() string { return "i/o timeout" }
func (c08Timeout) Timeout() bool { return true }

// faultyReader delivers data in chunks, with (0,nil) reads and an error at an offset.
type faultyReader struct {
	data   []byte
	off    int
	chunk  int
	zero   bool
	errAt  int
	err    error
	reads  int
	budget int
	k      int
}

type c08NoTermination struct{ reads int }

func (r *faultyReader) Read(p []byte) (int, error) {
	r.reads++
	if r.reads > r.budget {
		panic(c08NoTermination{r.reads})
	}
	if r.errAt >= 0 && r.off >= r.errAt {
		return 0, r.err
	}
	if r.off >= len(r.data) {
		return 0, io.EOF
	}
	r.k++
	if r.zero && r.k%3 == 0 {
		return 0, nil
	}
	n := len(p)
	if n > r.chunk {
		n = r.chunk
	}
	if n > len(r.data)-r.off {
		n = len(r.data) - r.off
	}
	if r.errAt >= 0 && r.off+n > r.errAt {
		n = r.errAt - r.off
	}
	copy(p, r.data[r.off:r.off+n])
	r.off += n
	return n, nil
}

func c08Run(e *Env, p *c08Plan) {
	for ci, c := range p.Cases {
		e.Ob(1)
		in := []byte(c.Input)
		fr := &faultyReader{data: in, chunk: c.Chunk, zero: c.Zero, errAt: c.ErrAt, budget: 200*len(in) + 5000}
		switch c.ErrKind {
		case "eof":
			fr.err = io.EOF
		case "unexpected-eof":
			fr.err = io.ErrUnexpectedEOF
		case "timeout":
			fr.err = c08Timeout{}
		default:
			fr.err = errors.New("custom read error")
		}
		br := bufio.NewReaderSize(fr, c.BufSz)
		var perr error
		parsedStatus := 0
		var pn any
		stack := ""
		parse := func() {
			defer func() {
				if r := recover(); r != nil {
					pn = r
					stack = string(debug.Stack())
				}
			}()
			switch c.Target {
			case "request":
				var req fasthttp.Request
				perr = c08ReadRequest(e, &req, br, c.MaxBody)
				if perr == nil {
					c08Values(&req)
				}
			case "response":
				var resp fasthttp.Response
				perr = resp.ReadLimitBody(br, c.MaxBody)
				parsedStatus = resp.StatusCode()
			case "reqheader":
				var h fasthttp.RequestHeader
				perr = h.Read(br)
			case "respheader":
				var h fasthttp.ResponseHeader
				perr = h.Read(br)
			case "values":
				// value parsers on raw generated bytes
				var u fasthttp.URI
				u.Parse(nil, in)
				var a fasthttp.Args
				a.ParseBytes(in)
				var ck fasthttp.Cookie
				ck.ParseBytes(in)
				fasthttp.ParseByteRange(in, len(in))
				if len(c.Vals) == 5 {
					var u2 fasthttp.URI
					u2.Parse([]byte(c.Vals[1]), []byte(c.Vals[0]))
					_ = u2.FullURI()
					u2.Update(c.Vals[4])
					a.Parse(c.Vals[2])
					a.Parse(c.Vals[0])
					ck.Parse(c.Vals[2])
					var rc fasthttp.Cookie
					rc.Parse("k=" + c.Vals[2] + "; path=" + c.Vals[4] + "; max-age=" + c.Vals[3] + "; expires=" + c.Vals[3])
					fasthttp.ParseByteRange([]byte("bytes="+c.Vals[3]), 1000)
					fasthttp.ParseByteRange([]byte(c.Vals[3]), 7)
					fasthttp.VisitHeaderParams([]byte("form-data; "+c.Vals[4]), func(k, v []byte) bool { return true })
					fasthttp.VisitHeaderParams([]byte(c.Vals[2]), func(k, v []byte) bool { return len(k) < 3 })
					var rh fasthttp.ResponseHeader
					rh.SetBytesKV([]byte("Set-Cookie"), []byte("k="+c.Vals[2]))
					rh.VisitAllCookie(func(k, v []byte) {
						var c2 fasthttp.Cookie
						c2.ParseBytes(v)
					})
				}
				var req fasthttp.Request
				perr = c08ReadRequest(e, &req, br, c.MaxBody)
				if perr == nil {
					c08Values(&req)
				}
			}
		}
		parse()
		e.Nontrivial = true
		tag := fmt.Sprintf("case %d %s (bufio %d, chunk %d, zero reads %v, error %q at %d, max body %d, %d mutations) input %q", ci, c.Target, c.BufSz, c.Chunk, c.Zero, c.ErrKind, c.ErrAt, c.MaxBody, c.Mut, clip(c.Input, 300))
		if nt, ok := pn.(c08NoTermination); ok {
			e.Violation("no-termination/"+c.Target, "%s: the parser issued %d reads for a %d-byte input without returning", tag, nt.reads, len(in))
			return
		}
		if pn != nil {
			origin := panicOrigin(stack)
			fn := frameFunc(origin)
			e.Violation("panic/"+c.Target+"/"+fn, "%s: panic %v at %s", tag, pn, origin)
			return
		}
		if perr != nil {
			e.Probe("parse-error")
			continue
		}
		e.Probe("parse-ok")
		// over-read: an unmutated message followed by the sentinel must leave the sentinel in place
		if c.Mut == 0 && c.ErrAt < 0 && (c.Target == "request" || c.Target == "response") {
			rest, _ := io.ReadAll(br)
			if c.Target == "request" {
				ref := refParseOne(in, 0)
				if ref.Kind == refOK {
					e.Ob(1)
					// The property bounds consumption from above only: the bytes left
					// in the reader must be a suffix of the input that still contains
					// everything after the reference end of the message. Stopping short
					// of that end is not an over-read (message boundaries are C01's).
					want := in[ref.End:]
					if !bytes.HasSuffix(in, rest) {
						e.Violation("over-read/request", "%s: the %d bytes left after the parsed message are not a suffix of the input (remaining %q)", tag, len(rest), clip(string(rest), 80))
						return
					}
					if len(rest) < len(want) {
						e.Violation("over-read/request", "%s: after the parsed message %d bytes remain, RFC 9112 framing leaves %d (the parser consumed %d bytes too many)", tag, len(rest), len(want), len(want)-len(rest))
						return
					}
					if len(rest) > len(want) {
						e.Probe("stopped-short")
					} else {
						e.Probe("exact-end")
					}
				}
			} else {
				if !bytes.HasSuffix(rest, []byte(c08Sentinel)) {
					e.Violation("over-read/response", "%s: the bytes following the parsed response do not end with the %d-byte sentinel (remaining %q)", tag, len(c08Sentinel), clip(string(rest), 80))
					return
				}
				// which message was returned: the first response that is not an
				// interim one (1xx other than 101); every byte consumed must belong
				// to the interim responses before it or to the message itself
				k := -1
				for i, r := range c.Resps {
					if !(r.Status[0] == '1' && r.Status != "101") {
						k = i
						break
					}
				}
				allClean := true
				for i := 0; i <= k; i++ {
					allClean = allClean && c.Resps[i].Clean
				}
				if k >= 0 && allClean {
					e.Ob(1)
					if got := fmt.Sprintf("%03d", parsedStatus); got != c.Resps[k].Status {
						e.Violation("over-read/response-skipped", "%s: the input holds responses %+v; the parser returned status %s, so it consumed a complete final response (%s) without returning it", tag, c.Resps, got, c.Resps[k].Status)
						return
					}
					if !bytes.HasSuffix(in, rest) || len(rest) < len(in)-c.Resps[k].End {
						e.Violation("over-read/response", "%s: the returned response ends at offset %d of %d, yet only %d bytes remain unread", tag, c.Resps[k].End, len(in), len(rest))
						return
					}
				}
			}
		}
	}
	_ = time.Second
}

// c08ReadRequest reads one request the way the API documents it: when
// ReadLimitBody returns with MayContinue set it has deliberately stopped after
// the head ("Expect: 100-continue"), and the caller reads the body with
// ContinueReadBody.
func c08ReadRequest(e *Env, req *fasthttp.Request, br *bufio.Reader, maxBody int) error {
	err := req.ReadLimitBody(br, maxBody)
	if err == nil && req.MayContinue() {
		e.Probe("expect-continue")
		err = req.ContinueReadBody(br, maxBody)
	}
	return err
}

// c08Values runs the value parsers on an accepted request.
func c08Values(req *fasthttp.Request) {
	req.URI().QueryArgs().Len()
	req.PostArgs().Len()
	for range req.Header.Cookies() {
	}
	req.Header.Cookie("a")
	req.Header.ContentType()
	req.Header.MultipartFormBoundary()
	fasthttp.ParseByteRange(req.Header.Peek("Range"), 100)
	req.MultipartForm()
	req.RemoveMultipartFormFiles()
	req.Header.Peek("X-Pad")
	_ = req.URI().FullURI()
	var ck fasthttp.Cookie
	ck.ParseBytes(req.Header.Peek("Cookie"))
}
