#!/bin/bash
# eval_wave.sh <ID>... : for each seed k of each ID run the ID's own quick check against /repo+patch; log to /tmp/seeds/<ID>/<k>/eval.txt
for ID in "$@"; do for k in 1 2 3; do d=/tmp/seeds/$ID/$k; [ -f $d/patch.diff ] || continue; [ -f $d/eval.txt ] && continue
  /verif/tools/eval_seed.sh $ID $d/patch.diff quick ${SECS:-30} > $d/eval.txt 2>&1; echo "$ID/$k: $(grep -E 'signature=|EXIT=' $d/eval.txt | tr '\n' ' ' | cut -c1-300)"; done; done
