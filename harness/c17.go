package harness

import (
	"bytes"
	"fmt"
	"io"
	"net"
	"strings"
	"time"

	"github.com/valyala/fasthttp"
	"verif/simrt/simnet"
)

// C17: hijacked connections are handed over intact.

type c17Conn struct {
	StaleNoResp bool  `json:"plain_requests_set_no_response"`
	Before   int   `json:"requests_before"`
	TailLen  int   `json:"tail_len"`
	Cuts     []int `json:"cuts"`
	PauseMs  []int `json:"pauses_ms"`
	Faults   bool  `json:"net_faults"`
	ReadBuf  int   `json:"hijack_read_buf"`
	ClientFirst bool `json:"client_closes_first"`
	NoOwnDeadline bool `json:"hijack_handler_sets_no_deadline,omitempty"` // it relies on the connection coming without deadlines
	SrvWriteFailAt int `json:"server_write_fails_at_byte,omitempty"`     // the server's output on this connection fails at this byte (inside or before the hijacking response)
	ReqConn  string `json:"hijacking_request_connection,omitempty"` // "" | close | http10: the response ends HTTP on this connection; the hijack is still due
}

type c17Plan struct {
	ReduceMem  bool      `json:"reduce_memory_usage"`
	NoResponse bool      `json:"hijack_set_no_response"`
	Keep       bool      `json:"keep_hijacked_conns"`
	ReadBufSz  int       `json:"read_buffer_size"`
	ReadTimeoutMs int    `json:"read_timeout_ms,omitempty"`
	Conns      []c17Conn `json:"conns"`
}

func init() { scenarios["C17"] = scenC17 }

func tailPat(ci int, i int) byte { return byte('a' + (i*7+ci*3+i/26)%26) }

func scenC17(e *Env) func() {
	p := &c17Plan{ReduceMem: e.Chance(40), NoResponse: e.Chance(30), Keep: e.Chance(30), ReadBufSz: Pick(e, 4096, 4096, 512, 8192), ReadTimeoutMs: Pick(e, 0, 0, 2000)}
	n := e.Range(1, 4)
	var subs []simnet.Faults
	for ci := 0; ci < n; ci++ {
		c := c17Conn{Before: e.Range(0, 2), TailLen: Pick(e, 0, 1, 5, 100, 4000, 4096, 5000, 8192, 9000), ReadBuf: Pick(e, 4096, 1, 7, 100, 10000), Faults: e.Chance(30), ClientFirst: e.Chance(20), StaleNoResp: e.Chance(30), ReqConn: Pick(e, "", "", "", "close", "http10")}
		// stream = before-requests + hijack request + tail; cut anywhere
		total := c.Before*40 + 80 + c.TailLen
		c.Cuts = e.Cuts(total, Pick(e, 0, 1, 2, 5))
		sent := 0
		for _, n := range c.Cuts {
			pm := Pick(e, 0, 0, 0, 1, 50, 700)
			sent += n
			if p.ReadTimeoutMs > 0 {
				// ReadTimeout covers the whole read of a request: the requests never dawdle
				// (their pauses add up to far less), only the tail behind the hijacking request may
				if pm > 50 {
					pm = 50
				}
				if sent > c.Before*40+120 && e.Chance(30) {
					pm = 3000
				}
			}
			c.PauseMs = append(c.PauseMs, pm)
		}
		c.NoOwnDeadline = e.Chance(50)
		if e.Chance(12) {
			c.SrvWriteFailAt = Pick(e, 1, 50, 120, 200, 400)
		}
		p.Conns = append(p.Conns, c)
		f := simnet.Faults{}
		if c.Faults {
			f = simnet.Faults{Seg: e.W.Sub(), Short: e.W.Sub(), Lat: e.W.Sub()}
		}
		subs = append(subs, f)
	}
	e.Sample = p
	e.Cfg.Holds, e.Cfg.HoldMax = Pick(e, 0, 0, 2), 200*time.Millisecond
	return func() { c17Run(e, p, subs) }
}

func c17Run(e *Env, p *c17Plan, subs []simnet.Faults) {
	s := &fasthttp.Server{ReduceMemoryUsage: p.ReduceMem, KeepHijackedConns: p.Keep, ReadBufferSize: p.ReadBufSz, IdleTimeout: time.Minute, ReadTimeout: time.Duration(p.ReadTimeoutMs) * time.Millisecond}
	k := NewServerKit(e, s)
	type hj struct {
		got          []byte
		sentAtEntry  []byte
		entered      bool
		returned     bool
		foreign      int
		srv          *simnet.Conn
		readErr      error
		kept         chan net.Conn // handed over through a channel: a real happens-before edge
	}
	recs := map[string]*hj{}
	clients := map[string]*simnet.Conn{}
	want := map[string]int{}
	rbuf := map[string]int{}
	noDeadline := map[string]bool{}
	k.Handle = func(ctx *fasthttp.RequestCtx, inv *Inv) {
		if !strings.HasPrefix(inv.URI, "/hijack") {
			if strings.HasPrefix(inv.URI, "/plainnr") {
				// asks for suppression but does not hijack: the flag must
				// neither suppress this response nor survive to a later request
				ctx.HijackSetNoResponse(true)
			}
			ctx.SetBodyString("plain")
			return
		}
		addr := inv.Conn
		rec := recs[addr]
		ctx.SetBodyString("hijack-resp")
		if p.NoResponse {
			ctx.HijackSetNoResponse(true)
		}
		ctx.Hijack(func(c net.Conn) {
			cl := clients[addr]
			rec.srv = cl.Peer()
			rec.srv.MarkOwner()
			rec.sentAtEntry = rec.srv.Sent()
			rec.entered = true
			if !noDeadline[addr] {
				c.SetReadDeadline(time.Now().Add(3 * time.Minute))
			}
			buf := make([]byte, rbuf[addr])
			n := want[addr]
			for len(rec.got) < n {
				m, err := c.Read(buf)
				rec.got = append(rec.got, buf[:m]...)
				if err != nil {
					rec.readErr = err
					break
				}
			}
			c.Write([]byte("HJ-ACK"))
			rec.foreign = rec.srv.ForeignOps
			rec.returned = true
			if p.Keep {
				rec.kept <- c
			}
		})
	}
	k.Start()
	exs := make([]*Exchange, len(p.Conns))
	tails := make([][]byte, len(p.Conns))
	var fs []func()
	for ci := range p.Conns {
		ci := ci
		c := p.Conns[ci]
		fs = append(fs, func() {
			var stream bytes.Buffer
			for i := 0; i < c.Before; i++ {
				if c.StaleNoResp {
					fmt.Fprintf(&stream, "GET /plainnr%d HTTP/1.1\r\nHost: x\r\n\r\n", i)
				} else {
					fmt.Fprintf(&stream, "GET /plain-%d HTTP/1.1\r\nHost: x\r\n\r\n", i)
				}
			}
			switch c.ReqConn {
			case "close":
				stream.WriteString("GET /hijack HTTP/1.1\r\nHost: x\r\nConnection: close\r\nX-Pad: " + strings.Repeat("p", 10) + "\r\n\r\n")
			case "http10":
				stream.WriteString("GET /hijack HTTP/1.0\r\nHost: x\r\nX-Pad: " + strings.Repeat("p", 10) + "\r\n\r\n")
			default:
				stream.WriteString("GET /hijack HTTP/1.1\r\nHost: x\r\nX-Pad: " + strings.Repeat("p", 10) + "\r\n\r\n")
			}
			tail := make([]byte, c.TailLen)
			for i := range tail {
				tail[i] = tailPat(ci, i)
			}
			tails[ci] = tail
			stream.Write(tail)
			data := stream.Bytes()
			conn, err := k.Dial(fmt.Sprintf("10.0.17.%d", ci+1))
			if err != nil {
				return
			}
			conn.F = subs[ci]
			addr := conn.LocalAddr().String()
			clients[addr] = conn
			recs[addr] = &hj{kept: make(chan net.Conn, 1)}
			want[addr] = c.TailLen
			rbuf[addr] = c.ReadBuf
			noDeadline[addr] = c.NoOwnDeadline
			if c.SrvWriteFailAt > 0 {
				conn.Peer().F.FailWriteAt = int64(c.SrvWriteFailAt)
				e.Fault("server_write_error")
			}
			ex := &Exchange{Addr: addr}
			exs[ci] = ex
			wdone := make(chan struct{})
			Go("hj-writer", func() {
				defer close(wdone)
				off := 0
				for i, n := range c.Cuts {
					if off >= len(data) {
						break
					}
					if off+n > len(data) {
						n = len(data) - off
					}
					if _, err := conn.Write(data[off : off+n]); err != nil {
						ex.WriteErr = err
						return
					}
					off += n
					if c.PauseMs[i] > 0 {
						time.Sleep(time.Duration(c.PauseMs[i]) * time.Millisecond)
					}
				}
				if off < len(data) {
					conn.Write(data[off:])
				}
			})
			// read everything the server side writes until it closes or 2 min idle
			var raw []byte
			buf := make([]byte, 8192)
			for {
				conn.SetReadDeadline(time.Now().Add(2 * time.Minute))
				n, err := conn.Read(buf)
				raw = append(raw, buf[:n]...)
				if bytes.HasSuffix(raw, []byte("HJ-ACK")) && c.ClientFirst {
					break
				}
				if err != nil {
					ex.Closed = err == io.EOF || !isTimeout(err)
					ex.Open = isTimeout(err)
					break
				}
			}
			ex.Trailing = raw
			<-wdone
			if p.Keep {
				// the server must leave a kept connection alone: still open 5 s later
				time.Sleep(5 * time.Second)
			}
			conn.Close()
		})
	}
	if !WaitAll(time.Hour, "conn", fs...) {
		e.Violation("liveness/clients", "clients did not finish")
		return
	}
	time.Sleep(2 * time.Second)
	cfgName := fmt.Sprintf("reducemem=%v,noresp=%v,keep=%v", p.ReduceMem, p.NoResponse, p.Keep)
	for ci, ex := range exs {
		if ex == nil {
			continue
		}
		rec := recs[ex.Addr]
		c := p.Conns[ci]
		e.Ob(1)
		if ex.WriteErr != nil && !rec.entered {
			continue
		}
		if !rec.entered && c.SrvWriteFailAt > 0 {
			// documented: no hijack after an error while writing the response
			e.Probe("hijack-skipped-write-error")
			continue
		}
		if !rec.entered {
			if c.ReqConn != "" {
				// documented (RequestCtx.Hijack): the server skips the hijack handler when the
				// request or the response carries Connection: close. Then the exchange is an
				// ordinary last request: response complete, connection closed by the server.
				e.Probe("hijack-skipped-closing-request")
				if !p.NoResponse && !bytes.Contains(ex.Trailing, []byte("hijack-resp")) && ex.WriteErr == nil {
					e.Violation("skipped-hijack/response-lost", "conn %d (hijacking request: %q): no hijack took place and the response did not reach the client (%q)", ci, c.ReqConn, clip(string(ex.Trailing), 200))
					return
				}
				if !ex.Closed && !c.ClientFirst {
					e.Violation("skipped-hijack/not-closed", "conn %d (hijacking request: %q): no hijack took place and the server left the connection open", ci, c.ReqConn)
					return
				}
				continue
			}
			e.Violation("not-hijacked", "conn %d: the hijack handler never ran (client saw %q)", ci, clip(string(ex.Trailing), 200))
			return
		}
		e.Nontrivial = true
		// response fully written before the hijack handler's first step
		wantResp := c.Before + 1
		if p.NoResponse {
			wantResp = c.Before
		}
		gotResp := strings.Count(string(rec.sentAtEntry), "HTTP/1.1 200 OK") + strings.Count(string(rec.sentAtEntry), "HTTP/1.0 200 OK")
		bodyDone := p.NoResponse || strings.HasSuffix(string(rec.sentAtEntry), "hijack-resp")
		e.Ob(1)
		if gotResp != wantResp || !bodyDone {
			e.Violation("response-before-handover/"+cfgName, "conn %d: when the hijack handler started the server had written %d complete responses (%q…), expected %d", ci, gotResp, clip(string(rec.sentAtEntry), 300), wantResp)
			return
		}
		e.Ob(1)
		if ne, ok := rec.readErr.(net.Error); ok && ne.Timeout() && c.NoOwnDeadline {
			// the connection is handed over without deadlines: a read of the hijack handler can
			// only time out on a deadline the handler set itself
			e.Violation("tail/stale-deadline", "conn %d: a read of the hijack handler timed out (%v) after %d of %d bytes although the handler set no deadline: the connection was handed over with the server's read deadline still armed", ci, rec.readErr, len(rec.got), len(tails[ci]))
			return
		}
		if !bytes.Equal(rec.got, tails[ci]) && ex.WriteErr == nil && rec.readErr == nil {
			e.Violation("tail/"+cfgName, "conn %d: the hijack handler read %d bytes, the client sent %d after the hijacking request (first difference at %d)", ci, len(rec.got), len(tails[ci]), firstDiff(rec.got, tails[ci]))
			return
		}
		if !bytes.HasPrefix(tails[ci], rec.got) {
			e.Violation("tail-corrupt/"+cfgName, "conn %d: the hijack handler read bytes that are not a prefix of what the client sent (first difference at %d)", ci, firstDiff(rec.got, tails[ci]))
			return
		}
		e.Ob(1)
		if rec.foreign != 0 {
			e.Violation("server-touched/"+cfgName, "conn %d: %d operations on the connection were issued by tasks other than the hijack handler while it ran", ci, rec.foreign)
			return
		}
		e.Ob(1)
		if p.Keep {
			if rec.srv.ForeignOps != 0 {
				e.Violation("kept-touched", "conn %d: KeepHijackedConns is set, yet the server issued %d operations on the connection after the hijack handler returned", ci, rec.srv.ForeignOps)
				return
			}
			select {
			case kc := <-rec.kept:
				kc.Close()
			default:
			}
		} else if !rec.srv.Closed() {
			e.Violation("not-closed", "conn %d: the hijack handler returned and the server left the connection open", ci)
			return
		}
		if !bytes.Contains(ex.Trailing, []byte("HJ-ACK")) && ex.WriteErr == nil && c.SrvWriteFailAt == 0 {
			e.Violation("handler-write-lost", "conn %d: bytes written by the hijack handler did not reach the client (%q)", ci, clip(string(ex.Trailing), 200))
			return
		}
	}
	k.Shutdown(time.Minute)
}
