#!/bin/bash
# eval_all.sh <ID>... : evaluate every /tmp/seeds/<ID>/<k>/patch.diff with the quick check (25 s of runs)
for ID in "$@"; do
  for k in 1 2 3; do
    P=/tmp/seeds/$ID/$k/patch.diff
    [ -f $P ] || continue
    echo "== $ID/$k"
    /verif/tools/eval_seed.sh $ID $P quick ${SECS:-25} 2>&1 | tail -3 | cut -c1-230
  done
done
