package harness

import (
	"bufio"
	"bytes"
	"compress/flate"
	"compress/zlib"
	"fmt"
	"io"
	"strings"
	"sync"
	"time"

	"github.com/valyala/fasthttp"
	"verif/simrt"
	"verif/simrt/simnet"
)

// C22: compression is transparent at every level of load.

type c22Req struct {
	ID     string `json:"id"`
	AE     string `json:"accept_encoding"`
	Size   int    `json:"body_size"`
	Stream bool   `json:"streamed"`
	API    string `json:"body_api,omitempty"` // set | raw | append | stream-sized | stream-unknown (when not streamed through a writer)
	PreEnc string `json:"preset_content_encoding"`
	Method string `json:"method"`
}

type c22Plan struct {
	Concurrent bool  `json:"concurrent_requests,omitempty"` // handler mode: all requests at once, each on its own connection
	Mode    string   `json:"mode"` // handler | load
	Wrapper string   `json:"wrapper"`
	Level   int      `json:"level"`
	BrLevel int      `json:"brotli_level"`
	Reqs    []c22Req `json:"reqs"`
	// load
	Callers int    `json:"callers"`
	Codec   string `json:"codec"`
	API     string `json:"api"` // append | write
	SrcSize int    `json:"src_size"`
	Starve  bool   `json:"starve_workers"`
}

func init() { scenarios["C22"] = scenC22 }

func scenC22(e *Env) func() {
	p := &c22Plan{Mode: Pick(e, "handler", "handler", "handler", "load")}
	if p.Mode == "handler" {
		p.Wrapper = Pick(e, "default", "level", "brotli")
		p.Level = Pick(e, -1, 0, 1, 6, 9, -2, 42, -7)
		p.BrLevel = Pick(e, 0, 4, 11, 5, 99, -3)
		n := e.Range(2, 7)
		for i := 0; i < n; i++ {
			p.Reqs = append(p.Reqs, c22Req{ID: fmt.Sprint(i), AE: Pick(e, "", "gzip", "deflate", "br", "zstd", "gzip, deflate, br", "br;q=0.1, gzip;q=0.9", "identity", "gzip;q=0", "*", "compress, x-unknown", "GZIP", "deflate, gzip;q=0", "zstd, br"),
				Size: Pick(e, 0, 1, 199, 200, 201, 1000, 5000, 70000), Stream: e.Chance(35), PreEnc: Pick(e, "", "", "", "gzip", "identity", "x-custom"), Method: Pick(e, "GET", "GET", "HEAD"), API: Pick(e, "set", "set", "raw", "append", "stream-sized", "stream-unknown")})
		}
	} else {
		gmp := simrt.GOMAXPROCS(0)
		p.Callers = Pick(e, 1, 10, 200, 600, 2048*gmp+60)
		if gmp > 1 && p.Callers > 2048 && !e.Thorough() {
			p.Callers = 600 // saturating 4096+ queue slots costs seconds: thorough tier only
		}
		p.Codec = Pick(e, "gzip", "deflate", "brotli", "zstd")
		p.API = Pick(e, "append", "write")
		p.SrcSize = Pick(e, 10, 300, 3000)
		p.Level = Pick(e, -1, 1, 6, 9)
		p.Starve = e.Chance(75)
		if p.Starve {
			e.Cfg.StarveSite = "func.go:"
			e.Cfg.StarveFrom, e.Cfg.StarveTo = 0, 1 << 30
		}
		e.Cfg.MaxSteps = 1200000
	}
	if p.Mode == "handler" {
		p.Concurrent = e.Chance(35)
		if e.Chance(12) {
			// flavour: a streamed brotli response, then a streamed gzip response, with the two
			// levels two apart (pooled writer objects of the two codecs must never meet)
			b := Pick(e, 11, 8, 4)
			p.Wrapper, p.BrLevel, p.Level, p.Concurrent = "brotli", b, b-2, false
			p.Reqs = append([]c22Req{{ID: "f0", AE: "br", Size: 5000, Stream: true, Method: "GET"}, {ID: "f1", AE: "gzip", Size: 5000, Stream: true, Method: "GET"}, {ID: "f2", AE: "br", Size: 3000, Stream: true, Method: "GET"}}, p.Reqs...)
		}
	}
	if p.Mode == "handler" && e.Chance(12) {
		// flavour: many buffered bodies compressed at once with the same codec (each request's
		// buffers are pooled objects that others may pick up while a compression is pending)
		codec := Pick(e, "zstd", "zstd", "br", "gzip", "deflate")
		p.Wrapper, p.Level, p.BrLevel, p.Concurrent = Pick(e, "default", "level"), Pick(e, -1, 1, 6), 4, true
		p.Reqs = nil
		for i, n := 0, e.Range(3, 7); i < n; i++ {
			p.Reqs = append(p.Reqs, c22Req{ID: fmt.Sprint("g", i), AE: codec, Size: Pick(e, 300, 1000, 5000, 20000), Method: "GET", API: Pick(e, "set", "set", "raw", "append")})
		}
		e.Cfg.PoolAdversarial = true
	}
	e.Sample = p
	if p.Mode == "handler" {
		return func() { c22Handler(e, p) }
	}
	return func() { c22Load(e, p) }
}

func accepts(ae, enc string) bool {
	// RFC 9110 12.5.3, enough of it: token list with optional q; q=0 forbids
	ok := false
	star := false
	for _, part := range strings.Split(ae, ",") {
		f := strings.Split(strings.TrimSpace(part), ";")
		name := strings.ToLower(strings.TrimSpace(f[0]))
		q := "1"
		for _, pp := range f[1:] {
			pp = strings.TrimSpace(pp)
			if strings.HasPrefix(pp, "q=") {
				q = strings.TrimPrefix(pp, "q=")
			}
		}
		zero := strings.Trim(q, "0.") == ""
		if name == enc {
			return !zero
		}
		if name == "*" && !zero {
			star = true
		}
	}
	return ok || star
}

func inflateAny(b []byte) ([]byte, error) {
	if zr, err := zlib.NewReader(bytes.NewReader(b)); err == nil {
		if out, err := io.ReadAll(zr); err == nil {
			return out, nil
		}
	}
	return io.ReadAll(flate.NewReader(bytes.NewReader(b)))
}

func c22Handler(e *Env, p *c22Plan) {
	byID := map[string]*c22Req{}
	for i := range p.Reqs {
		byID[p.Reqs[i].ID] = &p.Reqs[i]
	}
	inner := func(ctx *fasthttp.RequestCtx) {
		r := byID[string(ctx.QueryArgs().Peek("id"))]
		if r == nil {
			return
		}
		body := bodyPat("c22-"+r.ID, r.Size)
		if r.Stream {
			ctx.SetBodyStreamWriter(func(w *bufio.Writer) {
				for off := 0; off < len(body); off += 1000 {
					end := off + 1000
					if end > len(body) {
						end = len(body)
					}
					w.Write(body[off:end])
					w.Flush()
				}
			})
		} else {
			switch r.API {
			case "raw":
				ctx.Response.SetBodyRaw(body)
			case "append":
				ctx.SetBody(body[:len(body)/2])
				ctx.Response.AppendBody(body[len(body)/2:])
			case "stream-sized":
				ctx.SetBodyStream(bytes.NewReader(body), len(body))
			case "stream-unknown":
				ctx.SetBodyStream(bytes.NewReader(body), -1)
			default:
				ctx.SetBody(body)
			}
		}
		if r.PreEnc != "" {
			ctx.Response.Header.Set("Content-Encoding", r.PreEnc)
		}
		ctx.SetContentType("text/plain")
	}
	var h fasthttp.RequestHandler
	switch p.Wrapper {
	case "default":
		h = fasthttp.CompressHandler(inner)
	case "level":
		h = fasthttp.CompressHandlerLevel(inner, p.Level)
	default:
		h = fasthttp.CompressHandlerBrotliLevel(inner, p.BrLevel, p.Level)
	}
	s := &fasthttp.Server{IdleTimeout: time.Minute}
	k := NewServerKit(e, s)
	k.Handle = func(ctx *fasthttp.RequestCtx, inv *Inv) { h(ctx) }
	k.Start()
	type fetched struct {
		resp *Resp
		err  error
	}
	results := make([]fetched, len(p.Reqs))
	fetch := func(i int) {
		r := p.Reqs[i]
		sc, err := k.NewSeqClient("10.0.22.1", simnet.Faults{})
		if err != nil {
			results[i].err = err
			return
		}
		ae := ""
		if r.AE != "" {
			ae = "Accept-Encoding: " + r.AE + "\r\n"
		}
		sc.Send([]byte(fmt.Sprintf("%s /z?id=%s HTTP/1.1\r\nHost: x\r\n%s\r\n", r.Method, r.ID, ae)), nil)
		results[i].resp, _, results[i].err = sc.ReadResp(r.Method, time.Minute)
		sc.C.Close()
	}
	if p.Concurrent {
		var fsx []func()
		for i := range p.Reqs {
			i := i
			fsx = append(fsx, func() { fetch(i) })
		}
		if !WaitAll(time.Hour, "req", fsx...) {
			e.Violation("liveness/compress", "concurrent requests through CompressHandler did not finish")
			return
		}
	}
	for i, r := range p.Reqs {
		if !p.Concurrent {
			fetch(i)
		}
		resp, err := results[i].resp, results[i].err
		e.Ob(1)
		tag := fmt.Sprintf("req %s (%s, AE %q, size %d, streamed %v, preset CE %q, wrapper %s level %d/%d)", r.ID, r.Method, r.AE, r.Size, r.Stream, r.PreEnc, p.Wrapper, p.Level, p.BrLevel)
		if err != nil || resp == nil {
			e.Violation("no-response", "%s: %v", tag, err)
			return
		}
		e.Nontrivial = true
		if r.Method == "HEAD" {
			continue
		}
		want := bodyPat("c22-"+r.ID, r.Size)
		ces := resp.Header.Values("Content-Encoding")
		if len(ces) > 1 {
			e.Violation("double-encoding-header", "%s: Content-Encoding %q", tag, ces)
			return
		}
		ce := ""
		if len(ces) == 1 {
			ce = ces[0]
		}
		if r.PreEnc != "" {
			// the handler already declared an encoding: the body must go out untouched
			if ce != r.PreEnc || !bytes.Equal(resp.Body, want) {
				e.Violation("compressed-twice", "%s: the handler set Content-Encoding %q; the response has %q and a %d-byte body (handler body %d bytes)", tag, r.PreEnc, ce, len(resp.Body), len(want))
				return
			}
			continue
		}
		var got []byte
		var derr error
		switch ce {
		case "deflate":
			got, derr = inflateAny(resp.Body)
		default:
			got, derr = decodeBody(ce, resp.Body)
		}
		if derr != nil || !bytes.Equal(got, want) {
			e.Violation("body/"+ce, "%s: body does not decode (Content-Encoding %q) to the handler's body: err=%v, %d vs %d bytes (first difference at %d)", tag, ce, derr, len(got), len(want), firstDiff(got, want))
			return
		}
		if ce != "" {
			e.Probe("compressed-" + ce)
			if !accepts(r.AE, ce) {
				e.Violation("encoding-not-accepted/"+ce, "%s: response uses %q, which the request does not accept", tag, ce)
				return
			}
			if !hasToken(resp.Header.Values("Vary"), "Accept-Encoding") {
				e.Violation("vary-missing", "%s: compressed response without Vary: Accept-Encoding (%q)", tag, resp.Header.Values("Vary"))
				return
			}
		}
	}
	k.Shutdown(time.Minute)
}

func c22Load(e *Env, p *c22Plan) {
	src := bodyPat("load", p.SrcSize)
	var mu sync.Mutex
	empty, bad, failed, okc := 0, 0, 0, 0
	var firstBad string
	var fsx []func()
	for i := 0; i < p.Callers; i++ {
		fsx = append(fsx, func() {
			var out []byte
			var err error
			if p.API == "append" {
				switch p.Codec {
				case "gzip":
					out = fasthttp.AppendGzipBytesLevel(nil, src, p.Level)
				case "deflate":
					out = fasthttp.AppendDeflateBytesLevel(nil, src, p.Level)
				case "brotli":
					out = fasthttp.AppendBrotliBytesLevel(nil, src, 4)
				case "zstd":
					out = fasthttp.AppendZstdBytesLevel(nil, src, 3)
				}
			} else {
				var b bytes.Buffer
				switch p.Codec {
				case "gzip":
					_, err = fasthttp.WriteGzipLevel(&b, src, p.Level)
				case "deflate":
					_, err = fasthttp.WriteDeflateLevel(&b, src, p.Level)
				case "brotli":
					_, err = fasthttp.WriteBrotliLevel(&b, src, 4)
				case "zstd":
					_, err = fasthttp.WriteZstdLevel(&b, src, 3)
				}
				out = b.Bytes()
			}
			var back []byte
			var derr error
			switch p.Codec {
			case "gzip":
				back, derr = fasthttp.AppendGunzipBytes(nil, out)
			case "deflate":
				back, derr = fasthttp.AppendInflateBytes(nil, out)
			case "brotli":
				back, derr = fasthttp.AppendUnbrotliBytes(nil, out)
			case "zstd":
				back, derr = fasthttp.AppendUnzstdBytes(nil, out)
			}
			mu.Lock()
			defer mu.Unlock()
			switch {
			case err != nil:
				failed++
				if firstBad == "" {
					firstBad = "Write returned " + err.Error()
				}
			case len(out) == 0:
				empty++
			case derr != nil || !bytes.Equal(back, src):
				bad++
				if firstBad == "" {
					firstBad = fmt.Sprintf("decode err=%v, %d of %d bytes", derr, len(back), len(src))
				}
			default:
				okc++
			}
		})
	}
	if !WaitAll(6*time.Hour, "z", fsx...) {
		e.Violation("liveness/compress", "%d concurrent %s %s calls did not all return", p.Callers, p.API, p.Codec)
		return
	}
	e.Nontrivial = true
	e.Ob(p.Callers)
	if p.Callers > 2048 {
		e.Probe("stackless-queue-saturated")
	}
	load := "light"
	if p.Callers > 2048 {
		load = "saturated"
	}
	if empty > 0 {
		e.Violation("empty-output/"+load, "%d of %d concurrent %s(%s) calls returned an empty result for a %d-byte input (%d ok; workers starved: %v)", empty, p.Callers, p.API, p.Codec, p.SrcSize, okc, p.Starve)
		return
	}
	if bad > 0 {
		e.Violation("round-trip/"+load, "%d of %d concurrent %s(%s) calls did not round-trip: %s", bad, p.Callers, p.API, p.Codec, firstBad)
		return
	}
	if failed > 0 {
		e.Violation("call-failed/"+load, "%d of %d concurrent %s(%s) calls failed: %s", failed, p.Callers, p.API, p.Codec, firstBad)
	}
}
