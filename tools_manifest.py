#!/usr/bin/env python3
# Regenerates MANIFEST.json from the table below (keeps it valid at all times).
import json
claimed = {
 "C01": ("server request framing vs an independent RFC 9112 reference framer, over seeded pipelined streams (valid + adversarial CL/TE/chunk constructs), transport segmentation, pauses, short reads, delays, 2-5 connections per run, and settings ReduceMemoryUsage/DisableHeaderNamesNormalizing/GetOnly/DisablePreParseMultipartForm/ReadBufferSize", "6/C01"),
 "C02": ("handler body-reading programs (all/none/N bytes/PostBody) x StreamRequestBody x Expect: 100-continue accepted or rejected by ContinueHandler/ExpectHandler x polite and rude clients, bodies around the 8 KiB prefetch made of well-formed requests so any desync shows up as a dispatched smuggled request; transport segmentation and pauses", "6/C02"),
 "C09": ("the same request/response head (CRLF, bare-LF and mixed line endings, folds, leading empty line) followed by different continuations and arrival schedules (together, split by a pause, alone on an open connection) on several connections of one server, plus RequestHeader.Read/ResponseHeader.Read on bounded readers; same-outcome and answered-without-further-input oracles", "6/C09"),
 "C10": ("request histories per connection mixing HTTP/1.0 and 1.1, Connection token spellings and lists, handler SetConnectionClose / hand-set header, DisableKeepalive, MaxRequestsPerConn, CloseOnShutdown with a Shutdown task at a seeded time; per-response header-vs-socket oracle with closure observed on the simulated clock; client half: HostClient against a scripted server that says close and keeps the socket open", "6/C10"),
 "C12": ("connection arrival/close/hijack/error schedules from 1-3 addresses against small Concurrency and MaxConnsPerIP, Serve and ServeConn modes, slow-task faults, adversarial pools; peak monitors evaluated by the scheduler at every step, rejection oracle, quiescence counters and a behavioural per-IP probe", "6/C12"),
 "C13": ("worker pool driven through Serve with MaxWorkersCount 1-3 and short MaxIdleWorkerDuration: task census by spawn site at every scheduler step (bound), served-once/lost-connection oracle, idle retirement and no survivor after Stop, on the fake clock", "6/C13"),
 "C14": ("per-connection ConnState sequences checked against the documented automaton for silent, partial, pipelined, erroneous, hijacked, timed-out and rejected connections (Serve and ServeConn, ReduceMemoryUsage on/off, MaxConnsPerIP), plus StateActive-needs-a-byte measured on the simulated transport", "6/C14"),
 "C15": ("Shutdown at a seeded instant raced against slow handlers, idle keep-alive, silent, partial and pipelined connections at lock/atomic granularity: listener closed, Serve returned, no handler running, every started handler's response delivered, Done closed, idle connections not waited for; panics of server goroutines are violations", "6/C15"),
 "C03": ("handler programs over the response API (status 200-999, message, Set/Add headers, cookies, SetBody/Append/Raw, SetBodyStream with exact/short/long/unknown size, stream writers with flush patterns, Connection: close) for GET/HEAD/POST on HTTP/1.0 and 1.1, pipelined or sequential, against client read pacing (tiny receive windows), latency and short reads; wire parsed by net/http and compared with a model of the program", "6/C03"),
 "C34": ("instrumented body streams (chunked reads, error or panic at any offset, declared size equal/shorter/longer) as response streams, with client aborts mid-response; byte equality, declared-size bound, close-exactly-once and no-read-after-close accounting after the connection is finished", "6/C34"),
 "C11": ("request histories over 2-4 connections (normal, form, multipart, timeout, hijack, expectation-rejected, malformed) with adversarial sync.Pool (any retained or fresh object), handlers that snapshot and then mutate every reachable part of RequestCtx; snapshot-vs-sent and response-vs-own-handler oracles", "6/C11"),
 "C16": ("TimeoutHandler/TimeoutWithCodeHandler and explicit TimeoutError around handlers that keep mutating ctx after the timeout, timeouts 1 ms-1 s with handler durations at, just below and above them, several requests per connection, small Concurrency; response must be own output, exact timeout response or 429", "6/C16"),
 "C17": ("hijacking request followed by 0-9000 tail bytes arriving in the same segment, partly buffered or later, after 0-2 ordinary requests; ReduceMemoryUsage, HijackSetNoResponse, KeepHijackedConns; response-before-handover on the tap, tail byte equality, per-connection foreign-operation counter on the simulated socket", "6/C17"),
 "C04": ("1-5 concurrent callers x 1-3 calls over HostClient/Client/PipelineClient (MaxConns 1-3) against a scripted id-echo server (CL/chunked/close framing, delays, delayed body tails that are themselves well-formed responses, resets mid-response, 100-continue, Connection: close), Do/DoTimeout/DoDeadline, streamed bodies read partially and closed; id(header)=id(body)=id(request) oracle", "6/C04"),
 "C18": ("2-8 concurrent callers x 1-3 calls on a HostClient with MaxConns 1-3, with and without MaxConnWaitTimeout, LIFO/FIFO, short MaxIdleConnDuration/MaxConnDuration, a scripted dialer (refuse, hang, slow) and a server that closes, resets or answers slowly; live-or-dialling connection monitor, own-response oracle, deadline bound, ConnsCount and open sockets back to zero after idle expiry on the fake clock", "6/C18"),
 "C19": ("per-attempt fault sequences (dial error, write error, EOF before the response, read timeout, reset mid-response, oversized body) x methods x body kinds x MaxIdemponentCallAttempts x RetryIf/RetryIfErr variants x request timeouts; transmissions counted at the scripted server; thorough tier enumerates all sequences of length 6 over the 7 kinds by run index, 12 cases per run", "6/C19"),
 "C20": ("redirect chains (301/302/303/307/308; absolute, scheme-relative, host-relative, relative, userinfo, upper-case, other-port Locations) over a simulated network of 8 hosts (trusted, sub-domains, look-alike prefixes and suffixes, IPv4) with per-host header logs, keep-alive or close, EOF on first attempt so retries interleave with redirects", "6/C20"),
 "C21": ("mixed http/https histories for the same host names through Client, HostClient (matching and mismatching IsTLS) and LBClient, redirects across schemes, minutes-long gaps so the per-host client map is cleaned in between; real crypto/tls over the simulated transport; inside-TLS server logs and a raw tap on every connection", "6/C21"),
 "C38": ("2-10 callers using DoDeadline/DoTimeout/Do on a PipelineClient with MaxPendingRequests 1-4 and MaxConns 1-2 against servers that answer, stall, close, reset or refuse; return-time bound on the simulated clock, overflowed requests never on the wire, PendingRequests back to zero", "6/C38"),
 "C39": ("the prefork master (instrumented, os/exec.Cmd substituted by scripted children handed over through CommandProducer) with simulated GOMAXPROCS 1-4, RecoverThreshold 0-3, RecoverInterval and ShutdownGracePeriod on the fake clock, children that exit at seeded times, ignore SIGTERM or die slowly, spawn failures and hook errors at the k-th call; child ledger (spawn, signal, kill, exit, reap) and task census after return", "6/C39"),
 "C40": ("sequential and burst histories over 2-6 fake BalancingClients with scripted pending counts, failures, AddClient/RemoveClients and sleeps around the 3 s penalty expiry; exact least-load oracle against a penalty model (cap 300, 3 s) for sequential calls, bursts of up to 340 concurrent failures, ErrNoAvailableClients on an emptied list", "6/C40"),
 "C41": ("2-10 concurrent DialTimeout calls on a TCPDialer (Concurrency 1-3 or unbounded) with a simulated Resolver (1-4 addresses, slow, failing) and net.Dialer substituted by endpoints that accept, refuse, hang or are slow; in-progress connect monitor, rotation/all-addresses-tried oracle, wrapped ErrDialTimeout within timeout+slack on the simulated clock", "6/C41"),
 "C23": ("request targets over an alphabet of dot, percent-encoded, backslash, NUL and long-run segments x hosts (for the vhost rewriter) x built-in rewriters with all small counts x default-filesystem mode (os calls substituted by recording wrappers over a per-run real directory tree with bait files outside the root) and fs.FS mode, compression with and without CompressRoot, concurrent requests and disk faults; every recorded path must lie inside Root/CompressRoot, no outside content served, NUL and post-rewrite dot-dot rejected", "6/C23"),
 "C24": ("files of size 0, 1, 100, 8191-8193, 30000 x Range strings from a grammar (valid, open, suffix incl. -0, reversed, multi, garbage, overflow) x Accept-Encoding with gzip/br/zstd x If-Modified-Since before/at/after/garbage x GET and HEAD, short file reads, cache expiry between requests, concurrent compression; independent RFC 9110 range reference, decoded-body equality, HEAD mirrors GET, ParseByteRange invariant", "6/C24"),
 "C25": ("4-12 concurrent FS requests with slow or aborting clients (tiny receive windows), CacheDuration 100 ms-1 s, SkipCache, CleanStop closed at a seeded time, the handler cleanup run as a simulator event; per-handle accounting in the substituted file layer: closed exactly once, never read after close, none open after quiescence", "6/C25"),
 "C36": ("net/http handler programs (WriteHeader incl. 1xx and repeated calls, Header().Set/Add/Del, Write, Flush, sleeps) and requests with repeated headers and bodies; the reference response comes from a real net/http server run on an in-memory pipe, the simulated side runs NewFastHTTPHandler with handler goroutine, serve goroutine and stream writer interleaved by the scheduler; ConvertRequest compared with net/http parse of the same bytes", "6/C36"),
 "C22": ("(a) CompressHandler, CompressHandlerLevel and CompressHandlerBrotliLevel with in-range and out-of-range levels over buffered and streamed bodies around the 200-byte threshold, Accept-Encoding lists with q-values, wildcards and unknown codings, pre-set Content-Encoding; client decodes with the standard decoders; (b) 1 to 2048 x GOMAXPROCS + 60 simultaneous Append*/Write* calls per codec with the stackless worker tasks starved by the scheduler so the work queue saturates deterministically; every output must decode to its input", "6/C22"),
 "C07": ("server: bodies just below, at and above MaxRequestBodySize (1 B to 70 KB, 2 MiB in the thorough tier, default 4 MiB) fixed-length and chunked (tiny chunks, one chunk, mixed) with HeaderReceived overrides, heads around ReadBufferSize, compression bombs and many-part multipart bodies fed to the *WithLimit helpers; rejection status/close, handler never sees an oversize body, bytes taken from the simulated socket before rejection bounded by head + limit + buffers; client: MaxResponseBodySize against CL/chunked/close-delimited responses", "6/C07"),
 "C08": ("Request/Response.ReadLimitBody, RequestHeader/ResponseHeader.Read over a bufio.Reader of size 16-4096 on a faulty reader (1-byte to unlimited chunks, (0,nil) reads, EOF/unexpected EOF/timeout/custom error at any offset) fed with the C01 grammar, generated responses and 0-5 byte-level mutations, always followed by a sentinel, with positive body limits 1 B-16 MiB; Expect: 100-continue requests are completed with ContinueReadBody as the API documents; value parsers run on accepted requests and on raw bytes; no panic, read budget (termination), no byte consumed past the RFC 9112 reference end of the message and sentinel intact (no over-read)", "6/C08"),
 "C35": ("upload histories on sequentially used connections: 1-3 files of 0 B-100 KB (17 MiB in a thorough minority) and fields, StreamRequestBody and DisablePreParseMultipartForm on/off, fixed-length or chunked, handler parsing or ignoring the form, client aborts at 10/50/90 %, TimeoutError (excepted), keep-alive follow-ups; per-run private TMPDIR census at every later handler entry and after the server closed the connection; parsed form vs sent form; WriteMultipartForm round trip through mime/multipart", "6/C35"),
 "C37": ("the scenarios of C03 C04 C10 C11 C12 C13 C15 C16 C17 C18 C21 C22 C25 C38 C40 C41 re-run on the -race build of the harness: scheduler hand-offs, simulated network, pools and recorders are hidden from the detector (runtime.RaceDisable around them) while every real lock, atomic and channel operation of fasthttp still reaches it, so a report is a function of the tape and replays; only reports whose two racing accesses are both made by fasthttp or its dependencies count", "6/C37"),
 "C33": ("PipeConns stream equality and Close semantics, InmemoryListener Dial/Accept/Close pairing, under seeded interleavings of writers, readers, deadlines and closers at every channel/select/mutex operation", "6/C33"),
}
na = {
 "C05": "pure function of setter arguments: no schedule, clock, fault or I/O for a simulator to vary",
 "C06": "pure function (cookie serialisation/parsing): nothing for a scheduler or fault injector to choose",
 "C26": "pure function (path normalisation)",
 "C27": "pure function (URI round trip)",
 "C28": "sequential data structure (Args multimap) with no time, I/O or concurrency",
 "C29": "sequential data structure (header multimap) with no time, I/O or concurrency",
 "C30": "pure integer codecs; a statement over all 2^64 values is a proof/enumeration obligation, not a simulation target",
 "C31": "pure date/IP codecs",
 "C32": "pure finite byte tables (exhaustive enumeration, not simulation)",
}
pending = {}  # filled below
props = [json.loads(l) for l in open('/verif/properties.jsonl')]
checks = []
for p in props:
    i = p['id']
    if i in claimed:
        text, ref = claimed[i]
        lvl = "fault_enumeration" if i == "C19" else "exploration"
        checks.append({
            "property_id": i,
            "quick_cmd": f"./check {i} quick",
            "thorough_cmd": f"./check {i} thorough",
            "evidence_file": f"/verif/evidence/{i}.json",
            "replay_cmd_template": f"./check {i} --replay {{path}}",
            "engine": "simrt",
            "level_claimed": {"category": lvl, "text": "Seeded deterministic simulation: " + text + ". Each run is one exactly replayable execution of the real (instrumented) code; a clean batch is evidence proportional to the reach counters in the evidence file, not proof.", "design_ref": "DESIGN.md §" + ref},
            "level_note": "Trusted base: the verif/simrt scheduler and simnet transport, the siminst source rewriter (sync/atomic/channel/select/go statements only), testing/synctest fake clock, the per-property reference model/oracle. Code below the substituted seams (kernel sockets, real files/DNS/processes) is not exercised.",
            "technique": "deterministic simulation with fault injection (seeded schedule + fault search, replayable tapes)",
        })
    elif i not in na:
        na_reason = "not yet claimed: the simulated check for this property has not been built in this tree (see DESIGN.md §6 for the plan)"
        pending[i] = na_reason
m = {
 "version": 1,
 "setup_cmd": "./setup.sh",
 "hooks": {"guard": "verif", "enable": "no source hooks in /repo: every check instruments a scratch copy of the working tree (verif/siminst) and builds it with -tags verif", "baseline_off_cmd": "cd /repo && GOFLAGS=-mod=mod GOPROXY=off go test -vet=off -count=1 -timeout 25m ./...", "source_commits": [], "add_only": True},
 "engines": [{"name": "simrt", "path": "/verif/simrt", "serves_properties": sorted(claimed), "kind_free_text": "deterministic simulation: cooperative scheduler over real goroutines in a testing/synctest bubble, simulated network/clock/pools, seeded tapes, tape-level minimiser, replay"}],
 "checks": checks,
 "not_applicable": [{"property_id": k, "reason": v} for k, v in sorted({**na, **pending}.items())],
 "notes": "Generated by tools_manifest.py. One OS process per simulated run; evidence is written by cmd/verifctl.",
}
json.dump(m, open('/verif/MANIFEST.json', 'w'), indent=1)
print(len(checks), "claimed,", len(m["not_applicable"]), "not applicable/pending")
