#!/usr/bin/env python3
"""keep_seed.py <ID> <k> <name> <needs> <verify-result> <check-result>
Copies /tmp/seeds/<ID>/<k>/{patch.diff,demo*,notes.md} to /verif/seeded/<ID>-<name>/ and writes meta.json."""
import sys, os, shutil, json, glob
ID, k, name, needs, verify, check = sys.argv[1:7]
src = f"/tmp/seeds/{ID}/{k}"
dst = f"/verif/seeded/{ID}-{name}"
os.makedirs(dst, exist_ok=True)
for f in glob.glob(src + "/*"):
    if os.path.isfile(f) and os.path.getsize(f) < 200000:
        shutil.copy(f, dst)
meta = {"property": ID, "breaks": name, "needs_to_manifest": needs,
        "confirmed": verify, "check_result": check,
        "how_to_apply": f"git -C /repo apply /verif/seeded/{ID}-{name}/patch.diff ; ./check {ID} quick ; git -C /repo checkout -- ."}
json.dump(meta, open(dst + "/meta.json", "w"), indent=1)
print("kept", dst)
