// Package simrt is the deterministic cooperative scheduler the instrumented
// fasthttp tree is linked against. Real goroutines are parked at "gates" (one
// before every visible synchronisation operation) and released one at a time
// by a driver that runs inside a testing/synctest bubble; which gate is
// released next is a draw from the schedule tape.
package simrt

import (
	"bytes"
	"fmt"
	"hash/fnv"
	"os"
	"runtime"
	"runtime/debug"
	"sort"
	"strconv"
	"strings"
	"sync"
	"testing/synctest"
	"time"
)

type Task struct {
	ID     string
	Site   string
	spawns int
	prio   int
	seen   bool
	steps  int
	// outside: at its latest gate the task's call stack no longer contained the
	// function named by Config.StackProbe
	outside bool
}

var (
	probeMu  sync.Mutex
	probePCs = map[uintptr]bool{}
)

// stackHas reports whether any frame of the calling task's stack lies in a function
// whose name contains sub.
//
//go:norace
func stackHas(sub string) bool {
	var pcs [48]uintptr
	n := runtime.Callers(3, pcs[:])
	probeMu.Lock()
	defer probeMu.Unlock()
	for _, pc := range pcs[:n] {
		in, ok := probePCs[pc]
		if !ok {
			if f := runtime.FuncForPC(pc - 1); f != nil {
				in = strings.Contains(f.Name(), sub)
			}
			probePCs[pc] = in
		}
		if in {
			return true
		}
	}
	return false
}

// CensusInside counts the live tasks spawned at a site containing sub that are still
// inside the function named by Config.StackProbe (a task that has not reached a gate yet
// counts as inside).
//
//go:norace
func CensusInside(sub string) int {
	n := 0
	smu.Lock()
	for _, t := range tasks {
		if strings.Contains(t.Site, sub) && !t.outside {
			n++
		}
	}
	smu.Unlock()
	return n
}

type gate struct {
	t       *Task
	kind    string
	n       int // number of choices the driver draws for the task (0/1: none)
	enabled func() bool
	ch      chan int
	held    time.Time // zero: not held
	site    uint32    // hash of the parking call stack (only in site-yield runs)
	judged  bool      // site-yield decision taken
	yielded bool      // not offered to the scheduler while anything else can run
}

// site-yield mode (chosen per run from the tape): every pass through a call site whose
// stack hash falls in the run's residue class may be deferred until no other task can
// run at that instant. No clock moves: it is a pure scheduling choice, concentrated on
// a few code sites per run instead of on step numbers.
const yieldMod = 12

var yieldOn bool

type Config struct {
	MaxSteps   int
	MaxSimTime time.Duration
	KeepTrace  bool
	// Holds is the maximum number of "slow task" faults (an enabled task is
	// frozen for a simulated duration up to HoldMax while everything else goes on).
	Holds   int
	HoldMax time.Duration
	// HoldFocusAt, if positive, concentrates the slow-task faults on the steps taken at
	// simulated instants in [HoldFocusAt, HoldFocusAt+HoldFocusFor] (measured from Epoch):
	// outside that window almost none is spent. A scenario points it at the instant of the
	// event whose neighbourhood it wants stretched (a Shutdown, a sweep, a timeout).
	HoldFocusAt, HoldFocusFor time.Duration
	// PoolAdversarial lets Pool.Get return any retained object or a fresh one.
	PoolAdversarial bool
	// StarveSite, if not empty, names a spawn-site substring whose tasks get no
	// step while any other task is enabled, for steps in [StarveFrom, StarveTo).
	StarveSite           string
	StarveFrom, StarveTo int
	// Strategy: -1 = draw from tape; 0 walk, 1 pct, 2 starve (tape-chosen class).
	Strategy int
	// Monitor runs in the driver whenever every task is parked or blocked.
	Monitor func()
	// StackProbe, if not empty, is a function-name substring: every gate records whether
	// the parking task's stack still contains such a function (see CensusInside).
	StackProbe string
}

type Result struct {
	Steps     int
	Switches  int
	LogHash   uint64
	ILSig     uint64 // interleaving signature: hash of (site,kind) at context switches
	Trace     []string
	Census    map[string]int
	Stuck     bool
	StepLimit bool
	SimTime   time.Duration
	Strategy  string
	Holds     int
	HoldTotal time.Duration
	Yields    int
	MaxTasks  int
}

var (
	smu    sync.Mutex
	tasks  = map[int64]*Task{}
	parkCh chan *gate
	active bool
	// S is the schedule tape; only the driver draws from it.
	S   *Tape
	cfg Config
	// Epoch is the fake clock's start.
	Epoch time.Time
	stepN int
)

func goid() int64 {
	var buf [64]byte
	n := runtime.Stack(buf[:], false)
	b := buf[:n]
	b = b[len("goroutine "):]
	i := bytes.IndexByte(b, ' ')
	id, _ := strconv.ParseInt(string(b[:i]), 10, 64)
	return id
}

//go:norace
func cur() *Task {
	if !active {
		return nil
	}
	id := goid()
	smu.Lock()
	t := tasks[id]
	smu.Unlock()
	return t
}

// Active reports whether a simulation is running and the caller is a task.
func Active() bool {
	RaceOff()
	t := cur()
	RaceOn()
	return t != nil
}

// CurID returns the calling task's id ("" outside a simulation).
func CurID() string {
	RaceOff()
	t := cur()
	RaceOn()
	if t == nil {
		return ""
	}
	return t.ID
}

// Step returns the number of grants so far: the global event sequence number.
func Step() int { return stepN }

// GateN parks the calling task until the driver grants it and returns the
// driver's draw in [0,n).
//
//go:norace
func GateN(kind string, n int, enabled func() bool) int {
	RaceOff()
	t := cur()
	if t == nil {
		RaceOn()
		return 0
	}
	g := &gate{t: t, kind: kind, n: n, enabled: enabled, ch: make(chan int, 1)}
	if cfg.StackProbe != "" {
		t.outside = !stackHas(cfg.StackProbe)
	}
	if yieldOn {
		var pcs [5]uintptr
		h := uint32(2166136261)
		for _, pc := range pcs[:runtime.Callers(2, pcs[:])] {
			for i := 0; i < 4; i++ {
				h = (h ^ uint32(pc&0xff)) * 16777619
				pc >>= 8
			}
		}
		g.site = h
	}
	parkCh <- g
	v := <-g.ch
	RaceOn()
	return v
}

func Gate(kind string, enabled func() bool) { GateN(kind, 0, enabled) }

// Yield is inserted by the instrumenter before channel operations.
func Yield(site string) { GateN("chan", 0, nil) }

//go:norace
func adopt(t *Task) int64 {
	id := goid()
	smu.Lock()
	tasks[id] = t
	smu.Unlock()
	return id
}

//go:norace
func unadopt(id int64) {
	smu.Lock()
	delete(tasks, id)
	smu.Unlock()
}

//go:norace
func childOf(p *Task, site, tag string) *Task {
	smu.Lock()
	p.spawns++
	c := &Task{ID: p.ID + "." + tag + strconv.Itoa(p.spawns), Site: site}
	smu.Unlock()
	return c
}

// Go starts f as a simulated task (a plain goroutine outside a simulation).
func Go(site string, f func()) {
	RaceOff()
	p := cur()
	if p == nil {
		RaceOn()
		go f()
		return
	}
	child := childOf(p, site, "")
	RaceOn()
	go func() {
		RaceOff()
		id := adopt(child)
		RaceOn()
		defer func() {
			RaceOff()
			unadopt(id)
			RaceOn()
		}()
		defer catchPanic(child)
		GateN("start", 0, nil)
		f()
	}()
}

// TaskPanic is a panic that escaped a simulated task. In a real process it
// would have crashed the program; the simulator records it and lets the other
// tasks go on so that the run can be reported.
type TaskPanic struct {
	Task  string
	Site  string
	Value string
	Stack string
}

var Panics []TaskPanic

//go:norace
func catchPanic(t *Task) {
	if r := recover(); r != nil {
		RaceOff()
		smu.Lock()
		Panics = append(Panics, TaskPanic{Task: t.ID, Site: t.Site, Value: fmt.Sprint(r), Stack: string(debug.Stack())})
		smu.Unlock()
		RaceOn()
	}
}

// AfterFunc replaces time.AfterFunc: the callback runs as a task with a
// deterministic identity.
func AfterFunc(site string, d time.Duration, f func()) *time.Timer {
	RaceOff()
	p := cur()
	if p == nil {
		RaceOn()
		return time.AfterFunc(d, f)
	}
	base := childOf(p, "afterfunc:"+site, "t")
	RaceOn()
	fires := 0
	return time.AfterFunc(d, func() {
		RaceOff()
		smu.Lock()
		fires++
		t := &Task{ID: base.ID + "#" + strconv.Itoa(fires), Site: base.Site}
		smu.Unlock()
		id := adopt(t)
		RaceOn()
		defer func() {
			RaceOff()
			unadopt(id)
			RaceOn()
		}()
		defer catchPanic(t)
		GateN("start", 0, nil)
		f()
	})
}

// Census counts live tasks by spawn site.
//
//go:norace
func Census() map[string]int {
	m := map[string]int{}
	smu.Lock()
	for _, t := range tasks {
		m[t.Site]++
	}
	smu.Unlock()
	return m
}

// CensusMatch counts live tasks whose spawn site contains sub.
//
//go:norace
func CensusMatch(sub string) int {
	n := 0
	smu.Lock()
	for _, t := range tasks {
		if strings.Contains(t.Site, sub) {
			n++
		}
	}
	smu.Unlock()
	return n
}

var holdDurations = []time.Duration{time.Millisecond, 10 * time.Millisecond, 100 * time.Millisecond, time.Second, 3 * time.Second, 10 * time.Second}

func siteClass(site string) int {
	h := fnv.New32a()
	h.Write([]byte(site))
	return int(h.Sum32() % 6)
}

// Run executes root as task "0" under the scheduler. It must be called from
// the root goroutine of a synctest bubble.
//
//go:norace
func Run(root func(), c Config, s *Tape) Result {
	cfg = c
	S = s
	if cfg.MaxSteps == 0 {
		cfg.MaxSteps = 200000
	}
	if cfg.MaxSimTime == 0 {
		cfg.MaxSimTime = 2 * time.Hour
	}
	parkCh = make(chan *gate, 1<<16)
	Epoch = time.Now()
	active = true
	stepN = 0
	rootT := &Task{ID: "0", Site: "root"}
	rootDone := make(chan struct{})
	go func() {
		RaceOff()
		id := adopt(rootT)
		RaceOn()
		GateN("start", 0, nil)
		root()
		RaceOff()
		unadopt(id)
		close(rootDone)
	}()
	// The root task is started with the race detector on, so that everything
	// the harness set up before the run happens-before it. From here on the
	// driver never contributes happens-before edges.
	RaceOff()

	var res Result
	// strategy knobs
	strat := cfg.Strategy
	if strat < 0 {
		strat = S.Draw(4)
		if strat == 3 {
			strat = 0
		}
	}
	stay := []int{112, 64, 0, 124}[S.Draw(4)] // out of 128
	var changePts []int
	starveClass, starveFrom, starveTo := -1, 0, 0
	switch strat {
	case 1:
		res.Strategy = "pct"
		d := 1 + S.Draw(4)
		// runs are a few hundred to a few thousand steps long: the span the
		// change points are drawn from is itself a draw, so that short runs
		// get change points too
		span := []int{300, 1000, 3000, 10000}[S.Draw(4)]
		for i := 0; i < d; i++ {
			changePts = append(changePts, S.Draw(span))
		}
	case 2:
		res.Strategy = "starve"
		starveClass = S.Draw(6)
		starveFrom = S.Draw(1500)
		starveTo = starveFrom + 50 + S.Draw(3000)
	default:
		res.Strategy = "walk"
	}
	holdsLeft := cfg.Holds
	lowPrio := 0
	yieldOn = false
	yieldTarget, yieldsLeft := uint32(0), 0
	if S.Draw(2) == 1 {
		yieldOn, yieldTarget, yieldsLeft = true, uint32(S.Draw(yieldMod)), 40
	}

	h := fnv.New64a()
	il := fnv.New64a()
	var parked []*gate
	var last *Task
	finished := false
	deadline := Epoch.Add(cfg.MaxSimTime)
	for !finished {
		synctest.Wait()
	drain:
		for {
			select {
			case g := <-parkCh:
				parked = append(parked, g)
			case <-rootDone:
				finished = true
				break drain
			default:
				break drain
			}
		}
		if finished {
			break
		}
		if res.Steps >= cfg.MaxSteps {
			res.StepLimit = true
			break
		}
		if cfg.Monitor != nil {
			cfg.Monitor()
		}
		now := time.Now()
		var en, deferred []*gate
		var nextHeld time.Time
		if yieldOn {
			// (tasks woken by the same event park in an order the Go runtime chooses:
			// the tape's draws are handed out in task-id order instead)
			var fresh []*gate
			for _, g := range parked {
				if !g.judged {
					g.judged = true
					if g.t.ID != "0" && (g.site>>8)%yieldMod == yieldTarget {
						fresh = append(fresh, g)
					}
				}
			}
			sort.Slice(fresh, func(i, j int) bool { return fresh[i].t.ID < fresh[j].t.ID })
			for _, g := range fresh {
				if yieldsLeft > 0 && S.Draw(2) == 0 {
					yieldsLeft--
					res.Yields++
					g.yielded = true
				}
			}
		}
		for _, g := range parked {
			if !g.held.IsZero() {
				if g.held.After(now) {
					if nextHeld.IsZero() || g.held.Before(nextHeld) {
						nextHeld = g.held
					}
					continue
				}
				g.held = time.Time{}
			}
			if g.enabled == nil || g.enabled() {
				if g.yielded {
					deferred = append(deferred, g)
					continue
				}
				en = append(en, g)
			}
		}
		if len(en) == 0 && len(deferred) > 0 {
			// nothing else can run at this instant: the deferred tasks go on
			for _, g := range deferred {
				g.yielded = false
			}
			en = deferred
		}
		if n := len(tasks); n > res.MaxTasks {
			res.MaxTasks = n
		}
		if len(en) == 0 {
			// nothing runnable: block; the fake clock jumps to the next timer
			wait := deadline.Sub(now)
			if !nextHeld.IsZero() && nextHeld.Sub(now) < wait {
				wait = nextHeld.Sub(now)
			}
			if wait <= 0 {
				res.Stuck = true
				break
			}
			tm := time.NewTimer(wait)
			select {
			case g := <-parkCh:
				parked = append(parked, g)
			case <-rootDone:
				finished = true
			case <-tm.C:
				if nextHeld.IsZero() {
					res.Stuck = true
					finished = true
				}
			}
			tm.Stop()
			continue
		}
		// deterministic order: the task that ran last first, then by id
		sort.Slice(en, func(i, j int) bool {
			if (en[i].t == last) != (en[j].t == last) {
				return en[i].t == last
			}
			return en[i].t.ID < en[j].t.ID
		})
		cand := en
		// starvation filters
		if cfg.StarveSite != "" && res.Steps >= cfg.StarveFrom && res.Steps < cfg.StarveTo {
			var f []*gate
			for _, g := range en {
				if !strings.Contains(g.t.Site, cfg.StarveSite) {
					f = append(f, g)
				}
			}
			if len(f) > 0 {
				cand = f
			}
		}
		if starveClass >= 0 && res.Steps >= starveFrom && res.Steps < starveTo {
			var f []*gate
			for _, g := range cand {
				if g.t.ID == "0" || siteClass(g.t.Site) != starveClass {
					f = append(f, g)
				}
			}
			if len(f) > 0 {
				cand = f
			}
		}
		var g *gate
		if strat == 1 {
			for _, c := range cand {
				if !c.t.seen {
					c.t.seen = true
					c.t.prio = 1 + S.Draw(1<<16)
				}
			}
			for _, cp := range changePts {
				if cp == res.Steps && last != nil {
					lowPrio--
					last.prio = lowPrio
				}
			}
			g = cand[0]
			for _, c := range cand[1:] {
				if c.t.prio > g.t.prio {
					g = c
				}
			}
		} else {
			idx := 0
			if len(cand) > 1 || holdsLeft > 0 {
				r := S.Draw(1 << 16)
				if r&127 >= stay {
					idx = (r >> 7) % len(cand)
				}
				// a task about to evaluate a select with several cases is the most rewarding one
				// to freeze: when it resumes, more than one case may be ready and the tape decides
				holdOdds := 6
				switch k := cand[idx].kind; {
				case k == "select" && cand[idx].n >= 2:
					holdOdds = 64
				case k == "net.close" || k == "fs.close":
					// a Close that takes a while: the window between a decision taken under a
					// lock and the release of the resource it was taken for
					holdOdds = 32
				}
				if cfg.HoldFocusAt > 0 {
					if at := now.Sub(Epoch); at >= cfg.HoldFocusAt && at <= cfg.HoldFocusAt+cfg.HoldFocusFor {
						holdOdds = 96
					} else {
						holdOdds = 1
					}
				}
				if holdsLeft > 0 && r>>7 >= 512-holdOdds && cfg.HoldMax > 0 {
					// slow-task fault: freeze this gate for a simulated duration
					d := holdDurations[S.Draw(len(holdDurations))]
					if d > cfg.HoldMax {
						d = cfg.HoldMax
					}
					holdsLeft--
					res.Holds++
					res.HoldTotal += d
					cand[idx].held = now.Add(d)
					continue
				}
			}
			g = cand[idx]
		}
		for i, p := range parked {
			if p == g {
				parked = append(parked[:i], parked[i+1:]...)
				break
			}
		}
		choice := 0
		if g.n > 1 {
			choice = S.Draw(g.n)
		}
		fmt.Fprintf(h, "%s %s %d|", g.t.ID, g.kind, choice)
		if g.t != last {
			res.Switches++
			fmt.Fprintf(il, "%s %s|", g.t.Site, g.kind)
			if cfg.KeepTrace {
				res.Trace = append(res.Trace, fmt.Sprintf("step %d t=%v switch to %s (%s) at %s", res.Steps, now.Sub(Epoch), g.t.ID, g.t.Site, g.kind))
			}
		}
		last = g.t
		g.t.steps++
		res.Steps++
		stepN = res.Steps
		g.ch <- choice
	}
	res.LogHash = h.Sum64()
	res.ILSig = il.Sum64()
	res.SimTime = time.Since(Epoch)
	res.Census = Census()
	active = false
	return res
}

// gomaxprocs is the simulated GOMAXPROCS; it is read from SIMRT_GOMAXPROCS at
// package initialisation so that init-time constants of the instrumented code
// (workerChanCap, stackless queue sizes) see the per-run value.
var gomaxprocs = func() int {
	if n, err := strconv.Atoi(os.Getenv("SIMRT_GOMAXPROCS")); err == nil && n > 0 {
		return n
	}
	return 1
}()

// GOMAXPROCS replaces runtime.GOMAXPROCS in instrumented code: a per-run knob.
func GOMAXPROCS(n int) int {
	old := gomaxprocs
	if n > 0 {
		gomaxprocs = n
	}
	return old
}

// AddCleanup replaces runtime.AddCleanup: cleanups are explicit simulator
// events (RunCleanups), never run by the garbage collector.
var cleanups []func()

func AddCleanup[T, S any](ptr *T, cleanup func(S), arg S) struct{ Stop func() } {
	smu.Lock()
	cleanups = append(cleanups, func() { cleanup(arg) })
	smu.Unlock()
	return struct{ Stop func() }{Stop: func() {}}
}

// RunCleanups runs (once) every cleanup registered so far, as the caller.
func RunCleanups() int {
	smu.Lock()
	cs := cleanups
	cleanups = nil
	smu.Unlock()
	for _, c := range cs {
		c()
	}
	return len(cs)
}
