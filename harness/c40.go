package harness

import (
	"errors"
	"fmt"
	"sync"
	"sync/atomic"
	"time"

	"github.com/valyala/fasthttp"
)

// C40: LBClient routes to the least-loaded client and penalties stay bounded.

type c40Op struct {
	Op   string `json:"op"` // call | burst | pending | sleep | add | remove | removeall
	J    int    `json:"j,omitempty"`
	N    int    `json:"n,omitempty"`
	Ms   int    `json:"ms,omitempty"`
	Fail []bool `json:"fail,omitempty"` // per client: does a call routed there fail
}

type c40Plan struct {
	Clients int     `json:"clients"`
	Ops     []c40Op `json:"ops"`
}

func init() { scenarios["C40"] = scenC40 }

type fakeBC struct {
	id       int
	base     int32 // scripted pending
	inflight int32
	calls    int32
	fail     *atomic.Bool
	latency  time.Duration
}

func (f *fakeBC) DoDeadline(req *fasthttp.Request, resp *fasthttp.Response, deadline time.Time) error {
	atomic.AddInt32(&f.inflight, 1)
	defer atomic.AddInt32(&f.inflight, -1)
	atomic.AddInt32(&f.calls, 1)
	if f.latency > 0 {
		time.Sleep(f.latency)
	}
	if f.fail.Load() {
		return errors.New("fake client failure")
	}
	resp.SetStatusCode(200)
	return nil
}

func (f *fakeBC) PendingRequests() int {
	return int(atomic.LoadInt32(&f.base)) + int(atomic.LoadInt32(&f.inflight))
}

func scenC40(e *Env) func() {
	p := &c40Plan{Clients: Pick(e, 2, 3, 3, 4, 4, 5)}
	n := e.Range(4, 25)
	for i := 0; i < n; i++ {
		op := c40Op{Op: Pick(e, "call", "call", "call", "call", "call", "pending", "pending", "sleep", "sleep", "add", "remove", "burst", "burst", "churn", "removeall")}
		switch op.Op {
		case "call":
			for j := 0; j < 6; j++ {
				op.Fail = append(op.Fail, e.Chance(35))
			}
		case "burst":
			op.J = e.Int(p.Clients)
			op.N = Pick(e, 5, 50, 299, 300, 301, 340)
		case "churn":
			op.J = e.Int(6)
			op.N = Pick(e, 2, 4, 8)
		case "pending":
			// (the first client is where a scan for the least-loaded one starts: its load matters most)
			op.J = Pick(e, 0, 0, e.Int(6), e.Int(6), e.Int(6))
			op.N = Pick(e, 0, 0, 1, 1, 2, 2, 1, 5, 300, 301, 299)
		case "sleep":
			op.Ms = Pick(e, 100, 1000, 2900, 3100, 3500, 7000)
		case "remove":
			op.J = e.Int(6)
		}
		p.Ops = append(p.Ops, op)
	}
	e.Sample = p
	return func() { c40Run(e, p) }
}

func c40Run(e *Env, p *c40Plan) {
	var fakes []*fakeBC
	newFake := func() *fakeBC {
		f := &fakeBC{id: len(fakes), fail: &atomic.Bool{}}
		fakes = append(fakes, f)
		return f
	}
	lb := &fasthttp.LBClient{Timeout: 10 * time.Second}
	for i := 0; i < p.Clients; i++ {
		lb.Clients = append(lb.Clients, newFake())
	}
	// model
	type mClient struct {
		f        *fakeBC
		total    int
		expiries []time.Duration // penalty expiry times
		present  bool
	}
	var model []*mClient
	for _, f := range fakes {
		model = append(model, &mClient{f: f, present: true})
	}
	penalty := func(m *mClient, now time.Duration) (n int, boundary bool) {
		for _, t := range m.expiries {
			if t > now {
				n++
			}
			if d := t - now; d > -2*time.Millisecond && d < 2*time.Millisecond {
				boundary = true
			}
		}
		return
	}
	onlySuccess := true
	doCall := func() (int, error) {
		before := make([]int32, len(fakes))
		for i, f := range fakes {
			before[i] = atomic.LoadInt32(&f.calls)
		}
		req, resp := fasthttp.AcquireRequest(), fasthttp.AcquireResponse()
		req.SetRequestURI("http://lb/x")
		err := lb.Do(req, resp)
		chosen := -1
		for i, f := range fakes {
			if atomic.LoadInt32(&f.calls) != before[i] {
				chosen = i
			}
		}
		return chosen, err
	}
	for oi, op := range p.Ops {
		now := Now()
		switch op.Op {
		case "sleep":
			time.Sleep(time.Duration(op.Ms) * time.Millisecond)
		case "pending":
			if op.J < len(fakes) {
				atomic.StoreInt32(&fakes[op.J].base, int32(op.N))
			}
		case "add":
			if len(fakes) < 6 {
				f := newFake()
				lb.AddClient(f)
				model = append(model, &mClient{f: f, present: true})
			}
		case "remove":
			if op.J < len(model) && model[op.J].present {
				target := model[op.J].f
				lb.RemoveClients(func(c fasthttp.BalancingClient) bool { return c == fasthttp.BalancingClient(target) })
				model[op.J].present = false
			}
		case "removeall":
			lb.RemoveClients(func(fasthttp.BalancingClient) bool { return true })
			for _, m := range model {
				m.present = false
			}
		case "burst":
			// N concurrent failing calls pinned to client J by making every other client look busy
			var m *mClient
			if op.J < len(model) && model[op.J].present {
				m = model[op.J]
			}
			if m == nil {
				continue
			}
			saved := make([]int32, len(fakes))
			for i, f := range fakes {
				saved[i] = atomic.LoadInt32(&f.base)
				if i != op.J {
					atomic.StoreInt32(&f.base, 100000)
				} else {
					atomic.StoreInt32(&f.base, 0)
				}
			}
			m.f.fail.Store(true)
			var wg sync.WaitGroup
			for k := 0; k < op.N; k++ {
				wg.Add(1)
				Go("burst", func() {
					defer wg.Done()
					req, resp := fasthttp.AcquireRequest(), fasthttp.AcquireResponse()
					req.SetRequestURI("http://lb/x")
					lb.Do(req, resp)
				})
			}
			wg.Wait()
			m.f.fail.Store(false)
			for i, f := range fakes {
				atomic.StoreInt32(&f.base, saved[i])
			}
			onlySuccess = false
			end := Now()
			pen, _ := penalty(m, end)
			for k := 0; k < op.N && pen < 300; k++ {
				m.expiries = append(m.expiries, end+3*time.Second)
				pen++
			}
			e.Fault("burst-failures")
			// measure the bound right away (no simulated time has passed): against a reference
			// client with 301 pending requests the penalised client must still be preferred,
			// because its penalty never exceeds 300
			var ref *mClient
			for _, mm := range model {
				if mm.present && mm != m {
					ref = mm
					break
				}
			}
			if ref != nil && op.N >= 250 {
				saved2 := make([]int32, len(fakes))
				for i, f := range fakes {
					saved2[i] = atomic.LoadInt32(&f.base)
					f.fail.Store(false)
					switch f {
					case m.f:
						atomic.StoreInt32(&f.base, 0)
					case ref.f:
						atomic.StoreInt32(&f.base, 301)
					default:
						atomic.StoreInt32(&f.base, 100000)
					}
				}
				chosen, err := doCall()
				for i, f := range fakes {
					atomic.StoreInt32(&f.base, saved2[i])
				}
				e.Ob(1)
				if err == nil && chosen == ref.f.id {
					e.Violation("penalty-bound", "op %d: after %d concurrent failures on client %d a client with 301 pending requests was preferred to it: its penalty exceeds 300", oi, op.N, m.f.id)
					return
				}
				if err == nil && chosen == m.f.id {
					m.total++
				}
			}
		case "churn":
			// concurrent successful calls while clients are removed and added
			for _, f := range fakes {
				f.fail.Store(false)
			}
			var wg sync.WaitGroup
			for k := 0; k < op.N; k++ {
				wg.Add(1)
				Go("churn-caller", func() {
					defer wg.Done()
					for r := 0; r < 3; r++ {
						req, resp := fasthttp.AcquireRequest(), fasthttp.AcquireResponse()
						req.SetRequestURI("http://lb/x")
						lb.Do(req, resp)
					}
				})
			}
			if op.J < len(model) && model[op.J].present {
				target := model[op.J].f
				lb.RemoveClients(func(c fasthttp.BalancingClient) bool { return c == fasthttp.BalancingClient(target) })
				model[op.J].present = false
			}
			if len(fakes) < 6 {
				f := newFake()
				lb.AddClient(f)
				model = append(model, &mClient{f: f, present: true})
			}
			wg.Wait()
			onlySuccess = false // completed counts are no longer known exactly
			for _, mm := range model {
				mm.total = -1 << 20
			}
			e.Probe("churn")
		case "call":
			var present []*mClient
			for _, m := range model {
				if m.present {
					present = append(present, m)
				}
			}
			for i, f := range fakes {
				f.fail.Store(i < len(op.Fail) && op.Fail[i])
			}
			chosen, err := doCall()
			e.Ob(1)
			if len(present) == 0 {
				if !errors.Is(err, fasthttp.ErrNoAvailableClients) {
					e.Violation("empty-list", "op %d: LBClient with no clients returned %v instead of ErrNoAvailableClients", oi, err)
					return
				}
				continue
			}
			if chosen < 0 {
				e.Violation("not-routed", "op %d: call returned %v without reaching any client", oi, err)
				return
			}
			e.Nontrivial = true
			var cm *mClient
			for _, m := range present {
				if m.f.id == chosen {
					cm = m
				}
			}
			if cm == nil {
				e.Violation("routed-to-removed", "op %d: call was routed to client %d, which had been removed", oi, chosen)
				return
			}
			// loads at selection time (sequential call: nothing else in flight)
			boundary := false
			minLoad := 1 << 30
			loads := map[int]int{}
			for _, m := range present {
				pn, b := penalty(m, now)
				boundary = boundary || b
				l := int(atomic.LoadInt32(&m.f.base)) + pn
				loads[m.f.id] = l
				if l < minLoad {
					minLoad = l
				}
			}
			if !boundary && loads[chosen] != minLoad {
				e.Violation("not-least-loaded", "op %d at %v: routed to client %d with load %d although the minimum load is %d (loads pending+penalty: %v)", oi, now, chosen, loads[chosen], minLoad, loads)
				return
			}
			if !boundary && onlySuccess {
				// tie-break by fewest completed requests (unambiguous while nothing has failed)
				for _, m := range present {
					if loads[m.f.id] == minLoad && m.total < cm.total {
						e.Violation("tie-break", "op %d: routed to client %d (completed %d) although client %d with the same load has completed %d", oi, chosen, cm.total, m.f.id, m.total)
						return
					}
				}
			}
			if err != nil {
				onlySuccess = false
				if pn, _ := penalty(cm, Now()); pn < 300 {
					cm.expiries = append(cm.expiries, Now()+3*time.Second)
				}
			} else {
				cm.total++
			}
		}
	}
	_ = fmt.Sprint
}
