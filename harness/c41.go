package harness

import (
	"verif/simrt"
	"strings"
	"context"
	"errors"
	"fmt"
	"net"
	"sync"
	"time"

	"github.com/valyala/fasthttp"
	"verif/simrt/simnet"
)

// C41: TCPDialer bounds concurrent dials and honours its timeout.

type c41Host struct {
	Addrs     []string `json:"addrs"` // endpoint behaviours: accept refuse hang slow
	ResolveMs int      `json:"resolve_ms"`
	ResolveErr bool    `json:"resolve_err"`
}

type c41Dial struct {
	Host      int `json:"host"`
	TimeoutMs int `json:"timeout_ms"`
	GapMs     int `json:"gap_ms"`
}

type c41Plan struct {
	Concurrency int        `json:"concurrency"`
	DNSCacheMs  int        `json:"dns_cache_ms"` // entries expire (and are resolved again) while other dials use them
	Hosts       []c41Host  `json:"hosts"`
	Callers     [][]c41Dial `json:"callers"`
}

func init() { scenarios["C41"] = scenC41 }

func scenC41(e *Env) func() {
	p := &c41Plan{Concurrency: Pick(e, 1, 2, 3, 0), DNSCacheMs: Pick(e, 3600000, 3600000, 40, 400, 1900)}
	nh := e.Range(1, 3)
	for i := 0; i < nh; i++ {
		h := c41Host{ResolveMs: Pick(e, 0, 0, 5, 300, 1000), ResolveErr: e.Chance(8)}
		na := e.Range(1, 4)
		allRefuse := e.Chance(25) // a host none of whose addresses accepts: every dial walks the whole rotation
		if allRefuse {
			na = e.Range(2, 4)
		}
		for j := 0; j < na; j++ {
			if allRefuse {
				h.Addrs = append(h.Addrs, "refuse")
			} else {
				h.Addrs = append(h.Addrs, Pick(e, "accept", "accept", "refuse", "hang", "slow"))
			}
		}
		p.Hosts = append(p.Hosts, h)
	}
	nc := e.Range(2, 10)
	for i := 0; i < nc; i++ {
		var ds []c41Dial
		m := e.Range(1, 3)
		for j := 0; j < m; j++ {
			ds = append(ds, c41Dial{Host: e.Int(nh), TimeoutMs: Pick(e, 10, 100, 500, 3000), GapMs: Pick(e, 0, 0, 1, 50, 2000)})
		}
		p.Callers = append(p.Callers, ds)
	}
	e.Sample = p
	e.Cfg.Holds, e.Cfg.HoldMax = Pick(e, 0, 0, 2), 20*time.Millisecond
	return func() { c41Run(e, p) }
}

type c41Resolver struct {
	p *c41Plan
}

func c41IP(h, a int) string { return fmt.Sprintf("10.41.%d.%d", h+1, a+1) }

func (r *c41Resolver) LookupIPAddr(ctx context.Context, host string) ([]net.IPAddr, error) {
	var h int
	fmt.Sscanf(host, "host%d.test", &h)
	if h >= len(r.p.Hosts) {
		return nil, errors.New("no such host")
	}
	hp := r.p.Hosts[h]
	if hp.ResolveMs > 0 {
		// like a real resolver, give up when the caller's deadline passes
		tm := time.NewTimer(time.Duration(hp.ResolveMs) * time.Millisecond)
		select {
		case <-tm.C:
		case <-ctx.Done():
			tm.Stop()
			return nil, &net.DNSError{Err: ctx.Err().Error(), Name: host, IsTimeout: true}
		}
	}
	if hp.ResolveErr {
		return nil, &net.DNSError{Err: "simulated resolver failure", Name: host}
	}
	var out []net.IPAddr
	for a := range hp.Addrs {
		out = append(out, net.IPAddr{IP: net.ParseIP(c41IP(h, a)).To4()})
	}
	return out, nil
}

func c41Run(e *Env, p *c41Plan) {
	behav := map[string]string{}
	for h, hp := range p.Hosts {
		for a, b := range hp.Addrs {
			ip := c41IP(h, a)
			behav[ip+":80"] = b
			if b == "accept" || b == "slow" {
				ln := e.Net.Listen(tcpAddr(ip, 80))
				Go("acceptor", func() {
					for {
						c, err := ln.Accept()
						if err != nil {
							return
						}
						c.Close()
					}
				})
			}
		}
	}
	var mu sync.Mutex
	inProgress, peak := 0, 0
	type attempt struct {
		addr string
		at   time.Duration
		task string
	}
	var attempts []attempt
	port := 42000
	simnet.DialHook = func(ctx context.Context, network, addr string) (net.Conn, error) {
		mu.Lock()
		inProgress++
		if inProgress > peak {
			peak = inProgress
		}
		port++
		pn := port
		attempts = append(attempts, attempt{addr, Now(), simrt.CurID()})
		mu.Unlock()
		defer func() {
			mu.Lock()
			inProgress--
			mu.Unlock()
		}()
		wait := func(d time.Duration) error {
			tm := time.NewTimer(d)
			defer tm.Stop()
			select {
			case <-tm.C:
				return nil
			case <-ctx.Done():
				return ctx.Err()
			}
		}
		switch behav[addr] {
		case "refuse":
			e.Fault("connect_refused")
			if err := wait(time.Millisecond); err != nil {
				return nil, err
			}
			return nil, &net.OpError{Op: "dial", Net: network, Err: simnet.ErrRefused}
		case "hang":
			e.Fault("connect_hang")
			<-ctx.Done()
			return nil, &net.OpError{Op: "dial", Net: network, Err: ctx.Err()}
		case "slow":
			e.Fault("connect_slow")
			if err := wait(200 * time.Millisecond); err != nil {
				return nil, &net.OpError{Op: "dial", Net: network, Err: err}
			}
		case "":
			return nil, &net.OpError{Op: "dial", Net: network, Err: errors.New("no route")}
		}
		return e.Net.Dial(tcpAddr("10.41.9.9", pn), addr)
	}
	d := &fasthttp.TCPDialer{Concurrency: p.Concurrency, Resolver: &c41Resolver{p}, DNSCacheDuration: time.Duration(p.DNSCacheMs) * time.Millisecond}
	holdBudget := time.Duration(e.Cfg.Holds) * e.Cfg.HoldMax
	var fsx []func()
	for ci := range p.Callers {
		ci := ci
		fsx = append(fsx, func() {
			for _, dl := range p.Callers[ci] {
				time.Sleep(time.Duration(dl.GapMs) * time.Millisecond)
				hp := p.Hosts[dl.Host]
				timeout := time.Duration(dl.TimeoutMs) * time.Millisecond
				mu.Lock()
				n0 := len(attempts)
				mu.Unlock()
				start := Now()
				c, err := d.DialTimeout(fmt.Sprintf("host%d.test:80", dl.Host), timeout)
				took := Now() - start
				e.Ob(1)
				if c != nil {
					c.Close()
					e.Nontrivial = true
				}
				// the deadline covers the lookup as well as the connects
				slack := holdBudget + 100*time.Millisecond
				if took > timeout+slack {
					e.Violation("timeout-exceeded", "DialTimeout(host%d, %v) returned after %v (err %v)", dl.Host, timeout, took, err)
					return
				}
				if err != nil && errors.Is(err, fasthttp.ErrDialTimeout) {
					e.Probe("dial-timeout")
					var up *fasthttp.ErrDialWithUpstream
					if !errors.As(err, &up) || up.Upstream == "" {
						e.Violation("timeout-not-wrapped", "ErrDialTimeout for host%d is not wrapped with the upstream address: %v", dl.Host, err)
						return
					}
					if took < timeout-time.Millisecond && !hp.ResolveErr {
						// returning ErrDialTimeout long before the timeout would be wrong
						if timeout-took > 5*time.Millisecond {
							e.Violation("timeout-too-early", "DialTimeout(host%d, %v) returned ErrDialTimeout after only %v", dl.Host, timeout, took)
							return
						}
					}
				}
				// on failure (not timeout) every resolved address was tried once in rotation
				if err != nil && !errors.Is(err, fasthttp.ErrDialTimeout) && !hp.ResolveErr {
					// the connects of this dial: made by tasks the dialer spawned from this caller
					me := simrt.CurID()
					mu.Lock()
					mine := []attempt{}
					for _, a := range attempts[n0:] {
						if a.task == me || strings.HasPrefix(a.task, me+".") {
							mine = append(mine, a)
						}
					}
					mu.Unlock()
					if took >= timeout-time.Millisecond {
						mine = nil // ran out of time: the remaining addresses could not be tried
					}
					if mine == nil {
						e.Probe("rotation-not-judged")
						continue
					}
					e.Probe("rotation-judged")
					if len(mine) != len(hp.Addrs) {
						e.Violation("not-all-tried", "dial to host%d failed with %v after trying %d of %d resolved addresses", dl.Host, err, len(mine), len(hp.Addrs))
						return
					}
					seen := map[string]int{}
					for i, a := range mine {
						seen[a.addr]++
						if i > 0 {
							// rotation: consecutive indices modulo n
							var h1, a1, h2, a2 int
							fmt.Sscanf(mine[i-1].addr, "10.41.%d.%d:80", &h1, &a1)
							fmt.Sscanf(a.addr, "10.41.%d.%d:80", &h2, &a2)
							if a2-1 != (a1)%len(hp.Addrs) {
								e.Violation("not-in-rotation", "dial to host%d tried %s after %s: not the next address in rotation", dl.Host, a.addr, mine[i-1].addr)
								return
							}
						}
					}
					for a, n := range seen {
						if n != 1 {
							e.Violation("tried-twice", "address %s tried %d times in one dial", a, n)
							return
						}
					}
				}
			}
		})
	}
	if !WaitAll(3*time.Hour, "dialer", fsx...) {
		e.Violation("liveness/dialers", "a DialTimeout call never returned")
		return
	}
	e.Ob(1)
	if p.Concurrency > 0 && peak > p.Concurrency {
		e.Violation("concurrency-exceeded", "%d dials were in progress at once with Concurrency=%d", peak, p.Concurrency)
	}
}
