#!/bin/bash
# mk_agent_task2.sh <ID> : second-wave task: like mk_agent_task.sh with tag "b", plus the one-line titles of the
# first-wave changes for this property (so that the new ones differ). Output dirs /tmp/seeds/<ID>b/{1,2,3}.
set -e
ID=$1
/verif/tools/mk_agent_task.sh $ID b > /tmp/seeds/${ID}b.prompt.tmp
{
  cat /tmp/seeds/${ID}b.prompt.tmp
  echo
  echo "Additional constraint: three changes for this property already exist (made by someone else). Yours must be DIFFERENT in mechanism, not variations of these:"
  for k in 1 2 3; do
    f=/verif/seeded/$ID-$k/notes.md
    [ -f $f ] && echo " - $(grep -m1 -v '^\s*$' $f | sed 's/^#* *//' | cut -c1-220)"
  done
  echo "Prefer changes whose effect needs a particular interleaving, timing, fault placement or multi-step history (rather than a single unusual input), and changes in code paths the anchors mention that the list above does not touch."
} > /tmp/seeds/${ID}b.prompt
rm -f /tmp/seeds/${ID}b.prompt.tmp
echo /tmp/seeds/${ID}b.prompt
