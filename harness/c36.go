package harness

import (
	"net/url"
	"bufio"
	"bytes"
	"fmt"
	"io"
	"net"
	"net/http"
	"sort"
	"strings"
	"sync"
	"time"

	"github.com/valyala/fasthttp"
	"github.com/valyala/fasthttp/fasthttpadaptor"
	"verif/simrt/simnet"
)

// C36: fasthttpadaptor handlers behave like the same handler under net/http.

type c36Op struct {
	Op string `json:"op"` // writeheader set add del write flush sleep
	A  string `json:"a,omitempty"`
	B  string `json:"b,omitempty"`
	N  int    `json:"n,omitempty"`
}

type c36Case struct {
	ID      string   `json:"id"`
	Method  string   `json:"method"`
	Target  string   `json:"target"`
	Headers [][2]string `json:"headers"`
	Body    int      `json:"body_len"`
	Prog    []c36Op  `json:"program"`
}

type c36Plan struct {
	Cases []c36Case `json:"cases"`
	// Interfere: the client reads each response slowly through a tiny receive window while
	// another connection is served by the adaptor: buffers the adaptor recycles must not
	// still be referenced by a response that is on its way out
	Interfere bool `json:"slow_reader_and_concurrent_request,omitempty"`
}

func init() { scenarios["C36"] = scenC36 }

func scenC36(e *Env) func() {
	p := &c36Plan{}
	n := e.Range(2, 6)
	for i := 0; i < n; i++ {
		c := c36Case{ID: fmt.Sprint(i), Method: Pick(e, "GET", "GET", "POST", "PUT", "DELETE"), Target: Pick(e, "/a", "/a/b?x=1&y=2", "/p%20q?z=%41", "/", "/a?x=1&x=2", "/a//b", "/a/./b/../c", "/files/a%2Fb.txt", "/p%41th", "/a/b/?", "/%7Euser/x;p=1", "/a+b?q=a+b")}
		nh := e.Range(0, 4)
		for j := 0; j < nh; j++ {
			c.Headers = append(c.Headers, [2]string{Pick(e, "X-Req-A", "X-Req-A", "X-Req-B", "Accept", "Cookie", "X-Forwarded-For"), fmt.Sprintf("v%d-%d", i, j)})
		}
		if c.Method != "GET" && c.Method != "DELETE" {
			c.Body = Pick(e, 0, 5, 300, 5000)
		}
		k := e.Range(0, 7)
		for j := 0; j < k; j++ {
			op := c36Op{Op: Pick(e, "writeheader", "set", "add", "add", "del", "write", "write", "flush", "sleep")}
			switch op.Op {
			case "writeheader":
				op.N = Pick(e, 200, 201, 204, 304, 404, 500, 103, 100, 299, 418)
			case "set", "add", "del":
				op.A = Pick(e, "X-A", "X-B", "X-A", "Content-Type", "Cache-Control")
				if op.Op == "add" && op.A == "Content-Type" {
					// a response with several Content-Type lines is not a
					// meaningful program (single-valued field in fasthttp's model)
					op.Op = "set"
				}
				op.B = fmt.Sprintf("val-%d-%d", i, j)
			case "write":
				op.N = Pick(e, 0, 1, 10, 500, 5000)
			case "sleep":
				op.N = Pick(e, 1, 50)
			}
			c.Prog = append(c.Prog, op)
		}
		p.Cases = append(p.Cases, c)
	}
	p.Interfere = e.Chance(30)
	e.Sample = p
	e.Cfg.Holds, e.Cfg.HoldMax = Pick(e, 0, 0, 2), 20*time.Millisecond
	return func() { c36Run(e, p) }
}

func c36Handler(c *c36Case, seenReq *http.Request, mu *sync.Mutex) http.HandlerFunc {
	return func(w http.ResponseWriter, r *http.Request) {
		if seenReq != nil {
			body, _ := io.ReadAll(r.Body)
			mu.Lock()
			*seenReq = *r
			seenReq.Body = io.NopCloser(bytes.NewReader(body))
			mu.Unlock()
		}
		for i, op := range c.Prog {
			switch op.Op {
			case "writeheader":
				w.WriteHeader(op.N)
			case "set":
				w.Header().Set(op.A, op.B)
			case "add":
				w.Header().Add(op.A, op.B)
			case "del":
				w.Header().Del(op.A)
			case "write":
				w.Write(bodyPat(c.ID+fmt.Sprint(i), op.N))
			case "flush":
				if f, ok := w.(http.Flusher); ok {
					f.Flush()
				}
			case "sleep":
				time.Sleep(time.Duration(op.N) * time.Millisecond)
			}
		}
	}
}

func c36Request(c *c36Case) []byte {
	var b bytes.Buffer
	fmt.Fprintf(&b, "%s %s HTTP/1.1\r\nHost: example.test\r\n", c.Method, c.Target)
	for _, h := range c.Headers {
		fmt.Fprintf(&b, "%s: %s\r\n", h[0], h[1])
	}
	if c.Body > 0 || c.Method == "POST" || c.Method == "PUT" {
		fmt.Fprintf(&b, "Content-Type: text/plain\r\nContent-Length: %d\r\n", c.Body)
	}
	b.WriteString("Connection: close\r\n\r\n")
	b.Write(bodyPat("req"+c.ID, c.Body))
	return b.Bytes()
}

type oneConnListener struct {
	c    net.Conn
	done chan struct{}
	once sync.Once
}

func (l *oneConnListener) Accept() (net.Conn, error) {
	var c net.Conn
	l.once.Do(func() { c = l.c })
	if c != nil {
		return c, nil
	}
	<-l.done
	return nil, io.EOF
}
func (l *oneConnListener) Close() error   { select { case <-l.done: default: close(l.done) }; return nil }
func (l *oneConnListener) Addr() net.Addr { return tcpAddr("10.36.0.1", 80) }

// netHTTPReference runs the program under a real net/http server over an
// in-memory pipe (plain goroutines, not simulated tasks) and returns the final response.
func netHTTPReference(c *c36Case) (*http.Response, []byte, *http.Request, error) {
	c1, c2 := net.Pipe()
	var seen http.Request
	var mu sync.Mutex
	srv := &http.Server{Handler: c36Handler(c, &seen, &mu)}
	ln := &oneConnListener{c: c2, done: make(chan struct{})}
	go srv.Serve(ln)
	go func() { c1.Write(c36Request(c)) }()
	br := bufio.NewReader(c1)
	var resp *http.Response
	var err error
	for {
		resp, err = http.ReadResponse(br, &http.Request{Method: c.Method})
		if err != nil {
			break
		}
		if resp.StatusCode >= 100 && resp.StatusCode < 200 {
			continue
		}
		break
	}
	var body []byte
	if err == nil {
		body, _ = io.ReadAll(resp.Body)
	}
	c1.Close()
	ln.Close()
	srv.Close()
	mu.Lock()
	r := seen
	mu.Unlock()
	return resp, body, &r, err
}

func hdrMultiset(h http.Header, names ...string) string {
	var out []string
	for _, n := range names {
		vs := append([]string(nil), h.Values(n)...)
		if n == "Cookie" {
			// repeated Cookie lines and one line joined with "; " mean the same
			// cookies (RFC 6265 5.4); fasthttp keeps cookies in the joined form
			vs = []string{strings.Join(vs, "; ")}
		}
		sort.Strings(vs)
		out = append(out, n+"="+strings.Join(vs, "|"))
	}
	return strings.Join(out, ";")
}

func c36Run(e *Env, p *c36Plan) {
	// fasthttp side
	var mu sync.Mutex
	byID := map[string]*c36Case{}
	converted := map[string]*http.Request{}
	convBody := map[string][]byte{}
	for i := range p.Cases {
		byID[p.Cases[i].ID] = &p.Cases[i]
	}
	s := &fasthttp.Server{IdleTimeout: time.Minute}
	k := NewServerKit(e, s)
	k.Handle = func(ctx *fasthttp.RequestCtx, inv *Inv) {
		id := string(ctx.Request.Header.Peek("X-Case"))
		mu.Lock()
		c := byID[id]
		mu.Unlock()
		if c == nil {
			return
		}
		var r http.Request
		if err := fasthttpadaptor.ConvertRequest(ctx, &r, true); err == nil {
			b, _ := io.ReadAll(r.Body)
			// the converted request may reference the RequestCtx's buffers, which are only
			// valid inside the handler: keep a deep copy of what is compared later
			cp := &http.Request{Method: strings.Clone(r.Method), RequestURI: strings.Clone(r.RequestURI), Proto: strings.Clone(r.Proto), Host: strings.Clone(r.Host), Header: http.Header{}}
			if r.URL != nil {
				if u, err := url.Parse(strings.Clone(r.URL.String())); err == nil {
					cp.URL = u
				}
			}
			for hk, hv := range r.Header {
				for _, v := range hv {
					cp.Header.Add(strings.Clone(hk), strings.Clone(v))
				}
			}
			mu.Lock()
			converted[id] = cp
			convBody[id] = append([]byte(nil), b...)
			mu.Unlock()
		}
		fasthttpadaptor.NewFastHTTPHandler(c36Handler(c, nil, nil))(ctx)
	}
	k.Start()
	for i := range p.Cases {
		c := &p.Cases[i]
		c.Headers = append(c.Headers, [2]string{"X-Case", c.ID})
		ref, refBody, refReq, refErr := netHTTPReference(c)
		sc, err := k.NewSeqClient("10.0.36.1", simnet.Faults{})
		if err != nil {
			return
		}
		var intfDone chan struct{}
		if p.Interfere {
			sc.C.Peer().F.Window = 64 // the server's writes wait for the reader
			x := &c36Case{ID: "x" + c.ID, Method: "GET", Target: "/interferer", Prog: []c36Op{{Op: "write", N: 6000}, {Op: "write", N: 3000}}}
			x.Headers = [][2]string{{"X-Case", x.ID}}
			mu.Lock()
			byID[x.ID] = x
			mu.Unlock()
			intfDone = make(chan struct{})
			Go("c36-interferer", func() {
				defer close(intfDone)
				time.Sleep(5 * time.Millisecond)
				if sc2, err := k.NewSeqClient("10.0.36.2", simnet.Faults{}); err == nil {
					sc2.Send(c36Request(x), nil)
					sc2.ReadResp("GET", time.Minute)
					sc2.C.Close()
				}
			})
		}
		sc.Send(c36Request(c), nil)
		if p.Interfere {
			time.Sleep(20 * time.Millisecond)
		}
		got, _, gerr := sc.ReadResp(c.Method, time.Minute)
		sc.C.Close()
		if intfDone != nil {
			<-intfDone
		}
		e.Ob(1)
		if refErr != nil {
			e.Probe("reference-failed")
			continue
		}
		if gerr != nil || got == nil {
			e.Violation("no-response", "case %s (%+v): net/http answers %d, the adaptor gave no parsable response: %v", c.ID, c.Prog, ref.StatusCode, gerr)
			return
		}
		e.Nontrivial = true
		tag := fmt.Sprintf("case %s %s %s program %+v", c.ID, c.Method, c.Target, c.Prog)
		if got.Status != ref.StatusCode {
			e.Violation("status", "%s: net/http final status %d, adaptor %d", tag, ref.StatusCode, got.Status)
			return
		}
		names := []string{"X-A", "X-B", "Cache-Control"}
		if a, b := hdrMultiset(ref.Header, names...), hdrMultiset(got.Header, names...); a != b {
			e.Violation("headers", "%s: handler-set headers under net/http %q, under the adaptor %q", tag, a, b)
			return
		}
		// Content-Type only when the handler set it explicitly
		ctSet := false
		for _, op := range c.Prog {
			if op.Op == "write" || op.Op == "flush" || (op.Op == "writeheader" && (op.N >= 200 || op.N == 101)) {
				break // the header is on its way: later changes do not count as handler-set
			}
			if (op.Op == "set" || op.Op == "add") && op.A == "Content-Type" {
				ctSet = true
			}
			if op.Op == "del" && op.A == "Content-Type" {
				ctSet = false
			}
		}
		if ref.StatusCode == 304 || ref.StatusCode == 204 {
			ctSet = false // net/http suppresses Content-Type on bodiless statuses: not a handler-visible difference
		}
		if ctSet {
			if a, b := hdrMultiset(ref.Header, "Content-Type"), hdrMultiset(got.Header, "Content-Type"); a != b {
				e.Violation("headers/content-type", "%s: net/http %q, adaptor %q", tag, a, b)
				return
			}
		}
		if !bytes.Equal(refBody, got.Body) {
			e.Violation("body", "%s: net/http body %d bytes, adaptor %d bytes (first difference at %d)", tag, len(refBody), len(got.Body), firstDiff(refBody, got.Body))
			return
		}
		// ConvertRequest vs net/http's own parse
		mu.Lock()
		cr, cb := converted[c.ID], convBody[c.ID]
		mu.Unlock()
		if cr != nil && cr.URL != nil && refReq != nil && refReq.URL != nil {
			e.Ob(1)
			rb, _ := io.ReadAll(refReq.Body)
			switch {
			case cr.Method != refReq.Method:
				e.Violation("convert/method", "%s: ConvertRequest method %q, net/http %q", tag, cr.Method, refReq.Method)
			case cr.URL.String() != refReq.URL.String() || cr.RequestURI != refReq.RequestURI:
				e.Violation("convert/url", "%s: ConvertRequest URL %q (RequestURI %q), net/http %q (%q)", tag, cr.URL.String(), cr.RequestURI, refReq.URL.String(), refReq.RequestURI)
			case cr.Proto != refReq.Proto:
				e.Violation("convert/proto", "%s: ConvertRequest proto %q, net/http %q", tag, cr.Proto, refReq.Proto)
			case cr.Host != refReq.Host:
				e.Violation("convert/host", "%s: ConvertRequest Host %q, net/http %q", tag, cr.Host, refReq.Host)
			case !bytes.Equal(cb, rb):
				e.Violation("convert/body", "%s: ConvertRequest body %d bytes, net/http %d", tag, len(cb), len(rb))
			default:
				names := []string{"X-Req-A", "X-Req-B", "Accept", "Cookie", "X-Forwarded-For", "Content-Type", "X-Case"}
				if a, b := hdrMultiset(refReq.Header, names...), hdrMultiset(cr.Header, names...); a != b {
					e.Violation("convert/headers", "%s: net/http request headers %q, ConvertRequest %q", tag, a, b)
				}
			}
			if e.Failed() {
				return
			}
		}
	}
	k.Shutdown(time.Minute)
}
