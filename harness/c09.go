package harness

import (
	"bufio"
	"bytes"
	"fmt"
	"sort"
	"strings"
	"time"

	"github.com/valyala/fasthttp"
	"verif/simrt/simnet"
)

// C09: head parsing is decided by the head's own bytes (not by what follows,
// nor by when it arrives); a complete head is answered without further input.

type c09Plan struct {
	Head      string   `json:"head"`
	Endings   string   `json:"endings"`
	Conts     []string `json:"continuations"`
	Arrivals  []string `json:"arrivals"` // together | split | silent
	RespHead  string   `json:"response_head"`
	ReduceMem bool     `json:"reduce_memory_usage"`
	ReadBuf   int      `json:"read_buffer_size"`
}

func init() { scenarios["C09"] = scenC09 }

func c09Head(e *Env, first string, resp bool) (string, string) {
	var b strings.Builder
	mode := Pick(e, "crlf", "lf", "mixed", "lf-final", "crlf-final-lf-lines", "lf", "mixed")
	nl := func(final bool) string {
		switch mode {
		case "crlf":
			return "\r\n"
		case "lf":
			return "\n"
		case "lf-final":
			if final {
				return "\n"
			}
			return "\r\n"
		case "crlf-final-lf-lines":
			if final {
				return "\r\n"
			}
			return "\n"
		}
		return Pick(e, "\r\n", "\n")
	}
	if !resp && e.Chance(10) {
		b.WriteString(nl(false)) // leading empty line
	}
	b.WriteString(first + nl(false))
	n := e.Range(0, 4)
	minimal := !resp && strings.HasSuffix(first, "HTTP/1.0") && strings.Contains(first, " / ")
	if minimal {
		n = 0 // the shortest heads there are: a request line and the blank line
	}
	if !resp && !minimal {
		b.WriteString("Host: example.com" + nl(false))
	}
	for i := 0; i < n; i++ {
		switch Pick(e, "plain", "plain", "fold", "empty-value", "long") {
		case "plain":
			fmt.Fprintf(&b, "X-H%d: v%d%s", i, i, nl(false))
		case "fold":
			fmt.Fprintf(&b, "X-H%d: a%s\tb%s", i, nl(false), nl(false))
		case "empty-value":
			fmt.Fprintf(&b, "X-H%d:%s", i, nl(false))
		case "long":
			fmt.Fprintf(&b, "X-H%d: %s%s", i, strings.Repeat("q", 100), nl(false))
		}
	}
	if resp {
		b.WriteString("Content-Length: 0" + nl(false))
	}
	b.WriteString(nl(true))
	return b.String(), mode
}

var c09Conts = []string{
	"",
	"GET /next HTTP/1.1\r\nHost: example.com\r\n\r\n",
	"GET /next HTTP/1.1\nHost: example.com\n\n",
	"xyz",
	"garbage\r\n\r\nmore",
	"\r\n\r\n",
	"\n\n",
	"A: b\r\n\r\n",
	"0123456789",
	"body line\n\nwith a bare blank line",
	"x\n\n",
}

func scenC09(e *Env) func() {
	p := &c09Plan{ReduceMem: e.Chance(30), ReadBuf: Pick(e, 4096, 4096, 512)}
	p.Head, p.Endings = c09Head(e, Pick(e, "GET /probe HTTP/1.1", "GET /probe?x=1 HTTP/1.1", "POST /probe HTTP/1.1", "GET /probe HTTP/1.0", "GET / HTTP/1.0", "M / HTTP/1.0"), false)
	if strings.HasPrefix(p.Head, "POST") || strings.Contains(p.Head, "\nPOST") {
		// give the POST an explicit empty body so the head is the whole message
		p.Head = strings.Replace(p.Head, "Host: example.com", "Content-Length: 0\r\nHost: example.com", 1)
	}
	p.RespHead, _ = c09Head(e, Pick(e, "HTTP/1.1 200 OK", "HTTP/1.1 204 No Content", "HTTP/1.0 200 OK"), true)
	n := e.Range(3, 5)
	p.Conts = append(p.Conts, "") // always one connection with nothing following
	p.Arrivals = append(p.Arrivals, Pick(e, "silent", "silent", "silent-split-1", "silent-split-2", "silent-split-3", "silent-bytewise", "silent-split-mid"))
	for i := 1; i < n; i++ {
		p.Conts = append(p.Conts, c09Conts[e.Int(len(c09Conts))])
		p.Arrivals = append(p.Arrivals, Pick(e, "together", "split", "together"))
	}
	e.Sample = p
	faults := make([]simnet.Faults, n)
	for i := range faults {
		if e.Chance(30) {
			faults[i] = simnet.Faults{Seg: e.W.Sub(), Short: e.W.Sub()}
		}
	}
	return func() {
		c09Direct(e, p)
		s := &fasthttp.Server{ReduceMemoryUsage: p.ReduceMem, ReadBufferSize: p.ReadBuf, ReadTimeout: 5 * time.Minute, IdleTimeout: 5 * time.Minute}
		k := NewServerKit(e, s)
		k.Start()
		exs := make([]*Exchange, n)
		var fs []func()
		for i := 0; i < n; i++ {
			i := i
			fs = append(fs, func() {
				var segs []Seg
				switch p.Arrivals[i] {
				case "together":
					segs = []Seg{{Data: []byte(p.Head + p.Conts[i])}}
				case "split":
					segs = []Seg{{Data: []byte(p.Head), Pause: 3 * time.Second}, {Data: []byte(p.Conts[i])}}
				case "silent-split-1", "silent-split-2", "silent-split-3", "silent-split-mid":
					// the head arrives in two reads, nothing follows
					k := map[string]int{"silent-split-1": 1, "silent-split-2": 2, "silent-split-3": 3, "silent-split-mid": len(p.Head) / 2}[p.Arrivals[i]]
					if k >= len(p.Head) {
						k = 1
					}
					h := []byte(p.Head)
					segs = []Seg{{Data: h[:len(h)-k], Pause: 500 * time.Millisecond}, {Data: h[len(h)-k:]}}
				case "silent-bytewise":
					for _, b := range []byte(p.Head) {
						segs = append(segs, Seg{Data: []byte{b}, Pause: time.Millisecond})
					}
				default:
					segs = []Seg{{Data: []byte(p.Head)}}
				}
				// observe for 60 s: far below the server's 5 min timeouts, so a
				// response can only come from parsing, never from a timeout
				exs[i] = k.RunClient("10.0.9.1", segs, 60*time.Second, faults[i], nil)
			})
		}
		if !WaitAll(time.Hour, "conn", fs...) {
			e.Violation("liveness/clients", "clients did not finish")
			return
		}
		// outcome of H on each connection
		type outcome struct {
			served  bool
			status  int
			headers string
		}
		outs := make([]outcome, n)
		for i, ex := range exs {
			invs := k.Invs(ex.Addr)
			var o outcome
			if len(invs) > 0 && strings.HasPrefix(invs[0].URI, "/probe") {
				o.served = true
				var hs []string
				for _, h := range invs[0].Headers {
					hs = append(hs, h[0]+"="+h[1])
				}
				sort.Strings(hs)
				o.headers = invs[0].Method + " " + invs[0].URI + " " + strings.Join(hs, "|")
			}
			if len(ex.Resps) > 0 {
				o.status = ex.Resps[0].Status
			}
			outs[i] = o
			e.Ob(1)
		}
		e.Nontrivial = true
		cls := "crlf"
		if strings.Contains(strings.ReplaceAll(p.Head, "\r\n", ""), "\n") {
			cls = "bare-lf"
		}
		// no-wait: the silent connection must have been answered, if the head
		// is complete: its blank line is CRLF (fasthttp's own rule: field
		// lines may end in a bare LF, the blank line that ends the block may
		// not; a bare-LF blank line is never accepted, whatever follows)
		complete := strings.HasSuffix(p.Head, "\n\r\n")
		if !complete {
			e.Probe("bare-lf-blank-line")
		}
		if complete && outs[0].status == 0 {
			e.Probe("silent-unanswered")
			e.Violation("no-wait/"+cls, "head %q is complete under LF line rules, was sent alone on an open connection and got no response for 60 simulated seconds (other connections: %+v)", p.Head, outs)
			return
		}
		for i := 1; i < n; i++ {
			if outs[i].served != outs[0].served || outs[i].headers != outs[0].headers {
				e.Violation("same-outcome/"+cls, "head %q: alone -> served=%v status=%d fields=%q; followed by %q (%s) -> served=%v status=%d fields=%q", p.Head, outs[0].served, outs[0].status, outs[0].headers, p.Conts[i], p.Arrivals[i], outs[i].served, outs[i].status, outs[i].headers)
				return
			}
		}
		k.Shutdown(time.Minute)
	}
}

// c09Direct compares RequestHeader.Read / ResponseHeader.Read on bounded
// readers holding the same head followed by different continuations.
func c09Direct(e *Env, p *c09Plan) {
	type res struct {
		err    bool
		fields string
	}
	parseReq := func(in string) res {
		var h fasthttp.RequestHeader
		err := h.Read(bufio.NewReaderSize(strings.NewReader(in), 4096))
		if err != nil {
			return res{err: true}
		}
		var hs []string
		for k, v := range h.All() {
			hs = append(hs, string(k)+"="+string(v))
		}
		sort.Strings(hs)
		return res{fields: string(h.Method()) + " " + string(h.RequestURI()) + " " + strings.Join(hs, "|")}
	}
	parseResp := func(in string) res {
		var h fasthttp.ResponseHeader
		err := h.Read(bufio.NewReaderSize(strings.NewReader(in), 4096))
		if err != nil {
			return res{err: true}
		}
		var hs []string
		for k, v := range h.All() {
			hs = append(hs, string(k)+"="+string(v))
		}
		sort.Strings(hs)
		return res{fields: fmt.Sprint(h.StatusCode()) + " " + strings.Join(hs, "|")}
	}
	for which, head := range []string{p.Head, p.RespHead} {
		parse, name := parseReq, "request"
		if which == 1 {
			parse, name = parseResp, "response"
		}
		cls := "crlf"
		if strings.Contains(strings.ReplaceAll(head, "\r\n", ""), "\n") {
			cls = "bare-lf"
		}
		base := parse(head)
		for _, c := range c09Conts[1:] {
			e.Ob(1)
			r := parse(head + c)
			if r != base {
				e.Violation("direct-"+name+"/"+cls, "%sHeader.Read(%q) -> err=%v %q, but with %q appended -> err=%v %q", strings.Title(name), head, base.err, base.fields, c, r.err, r.fields)
				return
			}
		}
	}
	_ = bytes.Equal
}
