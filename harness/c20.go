package harness

import (
	"bufio"
	"fmt"
	"sort"
	"net"
	"net/http"
	"strings"
	"sync"
	"time"

	"github.com/valyala/fasthttp"
)

// C20: redirects never leak credentials to other hosts.

type c20Hop struct {
	Status int    `json:"status"`
	Host   string `json:"to_host"` // logical host name of the target
	Form   string `json:"form"`    // absolute | scheme-relative | host-relative | relative | userinfo | upper | port
	EOF1   bool   `json:"eof_on_first_attempt"`
}

type c20Plan struct {
	Initial string   `json:"initial_host"`
	Method  string   `json:"method"`
	Max     int      `json:"max_redirects"`
	API     string   `json:"api"` // doredirects | get | post
	Hops    []c20Hop `json:"hops"`
	KeepAlive bool   `json:"keepalive"`
	Body      string `json:"body_built_with,omitempty"` // string | postargs | stream
	Parsed    bool   `json:"request_header_parsed_from_wire,omitempty"` // a forwarding caller: the header was read from bytes, not built with setters
	Warm      bool   `json:"request_object_used_before,omitempty"`      // the request object served a longer URL before (its buffers have capacity to spare)
	InitPort  int    `json:"initial_port,omitempty"`
}

func init() { scenarios["C20"] = scenC20 }

// logical hosts -> simulated listener address
var c20Hosts = map[string]string{
	"example.com":          "10.20.0.1",
	"sub.example.com":      "10.20.0.2",
	"evilexample.com":      "10.20.0.3",
	"example.com.evil.net": "10.20.0.4",
	"10.20.0.5":            "10.20.0.5",
	"other.org":            "10.20.0.6",
	"deep.sub.example.com": "10.20.0.7",
	"xexample.com":         "10.20.0.8",
	// a dotted prefix in front of a look-alike: not a subdomain of example.com
	"login.evilexample.com": "10.20.0.9",
	"a.b.xexample.com":      "10.20.0.10",
	// a proper prefix of the subdomain's name: the anchor must be the initial host, not a buffer that later hops overwrite
	"sub.example": "10.20.0.11",
}

var c20Names = []string{"example.com", "sub.example.com", "evilexample.com", "example.com.evil.net", "10.20.0.5", "other.org", "deep.sub.example.com", "xexample.com", "login.evilexample.com", "a.b.xexample.com", "sub.example"}

func scenC20(e *Env) func() {
	p := &c20Plan{Initial: Pick(e, "example.com", "example.com", "sub.example.com", "10.20.0.5"), Method: Pick(e, "GET", "POST", "POST", "PUT", "HEAD"), Max: Pick(e, 1, 2, 3, 5, 8), API: Pick(e, "doredirects", "doredirects", "doredirects", "get", "post"), KeepAlive: e.Bool()}
	p.Body = Pick(e, "string", "string", "postargs", "stream")
	p.Parsed = e.Chance(25)
	n := e.Range(1, 6)
	for i := 0; i < n; i++ {
		p.Hops = append(p.Hops, c20Hop{Status: Pick(e, 301, 302, 303, 307, 308), Host: c20Names[e.Int(len(c20Names))], Form: Pick(e, "absolute", "absolute", "scheme-relative", "host-relative", "relative", "userinfo", "upper", "port"), EOF1: e.Chance(10)})
	}
	p.Warm = e.Chance(40)
	p.InitPort = Pick(e, 0, 0, 8080)
	if e.Chance(25) {
		// trusted hops first (subdomains, differently spelled), then a look-alike of what the
		// chain went through: the anchor must stay the initial host whatever later hops wrote
		p.Initial, p.API, p.Max = "example.com", "doredirects", 8
		p.Hops = p.Hops[:0]
		for i, nt := 0, e.Range(1, 3); i < nt; i++ {
			p.Hops = append(p.Hops, c20Hop{Status: Pick(e, 302, 307, 308), Host: Pick(e, "sub.example.com", "sub.example.com", "deep.sub.example.com", "example.com"), Form: Pick(e, "absolute", "scheme-relative", "upper", "port")})
		}
		p.Hops = append(p.Hops, c20Hop{Status: Pick(e, 302, 307), Host: Pick(e, "sub.example", "sub.example", "xexample.com", "evilexample.com", "login.evilexample.com", "other.org"), Form: Pick(e, "absolute", "absolute", "scheme-relative", "port")})
	}
	e.Sample = p
	return func() { c20Run(e, p) }
}

func c20Run(e *Env, p *c20Plan) {
	type rec struct {
		host string // logical host (listener)
		l    srvReqLog
	}
	var mu sync.Mutex
	var recs []rec
	attempts := map[string]int{}
	// per-hop routing: request path /hop-k arrives at hop k's source host
	hostAt := func(k int) string { // host serving hop k (k=0: initial)
		h := p.Initial
		for i := 0; i < k && i < len(p.Hops); i++ {
			hop := p.Hops[i]
			switch hop.Form {
			case "host-relative", "relative":
				// stays on the same host
			default:
				h = hop.Host
			}
		}
		return h
	}
	var servers []*FakeServer
	for _, name := range c20Names {
		name := name
		for _, port := range []int{80, 8080} {
			fs := NewFakeServer(e, c20Hosts[name], port)
			fs.Plan = func(id string, req *http.Request) srvAction {
				mu.Lock()
				recs = append(recs, rec{name, srvReqLog{ID: id, Method: req.Method, Path: req.URL.Path, Host: req.Host, Header: req.Header, BodyLen: int(req.ContentLength)}})
				key := req.URL.Path
				attempts[key]++
				first := attempts[key] == 1
				mu.Unlock()
				a := srvAction{Status: 200, BodyLen: 10, Framing: "cl", ConnClose: !p.KeepAlive}
				var k int
				if _, err := fmt.Sscanf(strings.TrimPrefix(req.URL.Path, "/d/"), "hop-%d", &k); err != nil {
					return a
				}
				if k >= len(p.Hops) {
					return a
				}
				hop := p.Hops[k]
				if hop.EOF1 && first {
					return srvAction{EOFBefore: true}
				}
				next := fmt.Sprintf("/d/hop-%d", k+1)
				a.Status = hop.Status
				switch hop.Form {
				case "absolute":
					a.Location = "http://" + hop.Host + next
				case "scheme-relative":
					a.Location = "//" + hop.Host + next
				case "host-relative":
					a.Location = next
				case "relative":
					a.Location = fmt.Sprintf("hop-%d", k+1)
				case "userinfo":
					a.Location = "http://user:secret@" + hop.Host + next
				case "upper":
					a.Location = "HTTP://" + strings.ToUpper(hop.Host) + next
				case "port":
					a.Location = "http://" + hop.Host + ":8080" + next
				}
				return a
			}
			fs.Start()
			servers = append(servers, fs)
		}
	}
	port := 34000
	dial := func(addr string) (net.Conn, error) {
		host, prt, err := net.SplitHostPort(addr)
		if err != nil {
			return nil, err
		}
		ip, ok := c20Hosts[strings.ToLower(host)]
		if !ok {
			return nil, fmt.Errorf("harness: unknown host %q", host)
		}
		port++
		return e.Net.Dial(tcpAddr("10.20.9.9", port), ip+":"+prt)
	}
	cl := &fasthttp.Client{Dial: dial, ReadTimeout: 30 * time.Second, MaxIdleConnDuration: time.Second}
	req, resp := fasthttp.AcquireRequest(), fasthttp.AcquireResponse()
	url := "http://" + p.Initial + "/d/hop-0"
	if p.InitPort != 0 {
		url = fmt.Sprintf("http://%s:%d/d/hop-0", p.Initial, p.InitPort)
	}
	if p.Warm {
		req.SetRequestURI("http://a-much-longer-host-name.deep.sub.example.com:8080/some/longer/path?with=query")
		req.Header.Set("X-Earlier", "use")
		_ = req.URI().Host()
		req.Reset()
	}
	req.SetRequestURI(url)
	req.Header.SetMethod(p.Method)
	sensitive := map[string]string{"Authorization": "Bearer secret-token", "Cookie": "session=secret", "Cookie2": "v=secret2", "Proxy-Authorization": "Basic secretproxy", "Proxy-Authenticate": "secret-pa", "Www-Authenticate": "secret-wa"}
	var sensNames []string
	for k := range sensitive {
		sensNames = append(sensNames, k)
	}
	sort.Strings(sensNames)
	if p.Parsed {
		var raw strings.Builder
		fmt.Fprintf(&raw, "%s /d/hop-0 HTTP/1.1\r\nHost: %s\r\n", p.Method, p.Initial)
		for _, k := range sensNames {
			fmt.Fprintf(&raw, "%s: %s\r\n", k, sensitive[k])
		}
		raw.WriteString("X-Plain: not-secret\r\n\r\n")
		if err := req.Header.Read(bufio.NewReader(strings.NewReader(raw.String()))); err != nil {
			panic(err)
		}
		req.SetRequestURI(url)
	} else {
		for _, k := range sensNames {
			req.Header.Set(k, sensitive[k])
		}
		req.Header.Set("X-Plain", "not-secret")
	}
	if p.Method == "POST" || p.Method == "PUT" {
		switch p.Body {
		case "postargs":
			req.PostArgs().Set("field", "the-request-body")
			req.PostArgs().Set("other", "x")
			req.Header.SetContentType("application/x-www-form-urlencoded")
		case "stream":
			req.SetBodyStream(strings.NewReader("the-request-body"), 16)
			req.Header.SetContentType("text/x-body")
		default:
			req.SetBodyString("the-request-body")
			req.Header.SetContentType("text/x-body")
		}
	}
	var err error
	max := p.Max
	switch p.API {
	case "get":
		_, _, err = cl.Get(nil, url)
		max = 16
	case "post":
		args := fasthttp.AcquireArgs()
		args.Set("k", "v")
		_, _, err = cl.Post(nil, url, args)
		max = 16
	default:
		err = cl.DoRedirects(req, resp, p.Max)
	}
	_ = err
	e.Nontrivial = true
	mu.Lock()
	defer mu.Unlock()
	trusted := func(h string) bool {
		h, ini := strings.ToLower(h), strings.ToLower(p.Initial)
		return h == ini || strings.HasSuffix(h, "."+ini)
	}
	distinct := map[string]bool{}
	for _, r := range recs {
		distinct[r.l.Path] = true
		e.Ob(1)
		if p.API == "doredirects" && !trusted(r.host) {
			for _, name := range sensNames {
				if v := r.l.Header.Get(name); v != "" {
					e.Violation("credential-leak/"+strings.ToLower(name), "initial host %s: request %s %s sent to %s carried %s: %q (chain %+v)", p.Initial, r.l.Method, r.l.Path, r.host, name, v, p.Hops)
					return
				}
			}
		}
		var k int
		if _, err := fmt.Sscanf(strings.TrimPrefix(r.l.Path, "/d/"), "hop-%d", &k); err == nil && k > 0 && k <= len(p.Hops) && p.API == "doredirects" {
			prev := p.Hops[k-1]
			// where should hop k have been sent?
			if want := hostAt(k); want != r.host && !strings.EqualFold(want, r.host) {
				e.Violation("wrong-host", "hop %d should go to %s (Location form %s) but reached %s", k, want, prev.Form, r.host)
				return
			}
			if prev.Status == 303 {
				if (r.l.Method != "GET" && r.l.Method != "HEAD") || r.l.BodyLen > 0 || r.l.Header.Get("Content-Type") != "" || len(r.l.Header["Transfer-Encoding"]) > 0 {
					e.Violation("303-not-bodyless-get", "after a 303 the client sent %s with body length %d, Content-Type %q", r.l.Method, r.l.BodyLen, r.l.Header.Get("Content-Type"))
					return
				}
			}
		}
	}
	// method rewriting along the chain (tracked from the initial method)
	if p.API == "doredirects" {
		m := p.Method
		for k := 1; k <= len(p.Hops); k++ {
			prev := p.Hops[k-1]
			switch {
			case prev.Status == 303 && m != "GET" && m != "HEAD":
				m = "GET"
			case m == "POST" && (prev.Status == 301 || prev.Status == 302):
				m = "GET"
			}
			for _, r := range recs {
				if r.l.Path == fmt.Sprintf("/d/hop-%d", k) && r.l.Method != m {
					e.Violation("method-rewrite", "hop %d (after %d, initial method %s) was sent with %s, expected %s", k, prev.Status, p.Method, r.l.Method, m)
					return
				}
			}
		}
	}
	e.Ob(1)
	if len(distinct) > max+1 {
		e.Violation("too-many-redirects", "%d distinct hops were requested with a limit of %d redirects", len(distinct), max)
	}
	for _, fs := range servers {
		fs.Ln.Close()
	}
}
