package simrt

import (
	"fmt"
	"net"
	"reflect"
)

// Ordered is implemented by simulator objects that have a deterministic
// identity (simulated connections: their creation number).
type Ordered interface{ SimOrder() uint64 }

// orderOf finds a deterministic order number for a map key that wraps a
// simulated object (e.g. fasthttp's perIPConn around a simnet.Conn).
func orderOf(x any, depth int) (uint64, bool) {
	if x == nil || depth > 4 {
		return 0, false
	}
	if o, ok := x.(Ordered); ok {
		return o.SimOrder(), true
	}
	if nc, ok := x.(interface{ NetConn() net.Conn }); ok {
		if o, ok := orderOf(nc.NetConn(), depth+1); ok {
			return o, true
		}
	}
	v := reflect.ValueOf(x)
	for v.Kind() == reflect.Pointer || v.Kind() == reflect.Interface {
		if v.IsNil() {
			return 0, false
		}
		v = v.Elem()
	}
	if v.Kind() == reflect.Struct {
		f := v.FieldByName("Conn")
		if f.IsValid() && f.CanInterface() && (f.Kind() == reflect.Interface || f.Kind() == reflect.Pointer) && !f.IsNil() {
			return orderOf(f.Interface(), depth+1)
		}
	}
	return 0, false
}

// KeyLess orders map keys deterministically for OrderedRange.
func KeyLess(a, b any) bool {
	switch x := a.(type) {
	case string:
		return x < b.(string)
	case int:
		return x < b.(int)
	case int64:
		return x < b.(int64)
	case uint32:
		return x < b.(uint32)
	case uint64:
		return x < b.(uint64)
	}
	oa, oka := orderOf(a, 0)
	ob, okb := orderOf(b, 0)
	if oka || okb {
		if oa != ob {
			return oa < ob
		}
		return false
	}
	return fmt.Sprintf("%T%v", a, a) < fmt.Sprintf("%T%v", b, b)
}
