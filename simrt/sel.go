package simrt

import "reflect"

type Case interface {
	try() bool
	rcase() reflect.SelectCase
	setRecv(v reflect.Value, ok bool)
}

type RecvCase[T any] struct {
	ch <-chan T
	V  T
	OK bool
}

func (c *RecvCase[T]) try() bool {
	select {
	case v, ok := <-c.ch:
		c.V, c.OK = v, ok
		return true
	default:
		return false
	}
}
func (c *RecvCase[T]) rcase() reflect.SelectCase {
	return reflect.SelectCase{Dir: reflect.SelectRecv, Chan: reflect.ValueOf(c.ch)}
}
func (c *RecvCase[T]) setRecv(v reflect.Value, ok bool) {
	c.OK = ok
	if ok {
		c.V, _ = v.Interface().(T)
	} else {
		var z T
		c.V = z
	}
}

type SendCase[T any] struct {
	ch chan<- T
	v  T
}

func (c *SendCase[T]) try() bool {
	select {
	case c.ch <- c.v:
		return true
	default:
		return false
	}
}
func (c *SendCase[T]) rcase() reflect.SelectCase {
	return reflect.SelectCase{Dir: reflect.SelectSend, Chan: reflect.ValueOf(c.ch), Send: reflect.ValueOf(&c.v).Elem()}
}
func (c *SendCase[T]) setRecv(v reflect.Value, ok bool) {}

func Recv[T any](ch <-chan T) *RecvCase[T]      { return &RecvCase[T]{ch: ch} }
func Send[T any](ch chan<- T, v T) *SendCase[T] { return &SendCase[T]{ch: ch, v: v} }

// Select replaces a select statement. It returns the index of the chosen case
// or -1 for default. When several cases are ready the schedule tape decides
// which one wins (the runtime would pick pseudo-randomly).
func Select(site string, hasDefault bool, cases ...Case) int {
	n := len(cases)
	start := GateN("select", n, nil)
	for k := 0; k < n; k++ {
		i := (start + k) % n
		if cases[i].try() {
			return i
		}
	}
	if hasDefault {
		return -1
	}
	if n == 0 {
		select {}
	}
	rc := make([]reflect.SelectCase, n)
	for i, c := range cases {
		rc[i] = c.rcase()
	}
	i, v, ok := reflect.Select(rc)
	cases[i].setRecv(v, ok)
	return i
}
