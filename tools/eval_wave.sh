#!/bin/bash
# eval_wave.sh <ID>... : for each seed k of each ID (a property id, optionally with a wave suffix such as C12b) run the
# property's own quick check against the change; log to /tmp/seeds/<ID>/<k>/eval.txt
for ID in "$@"; do PROP=${ID%b}; for k in 1 2 3; do d=/tmp/seeds/$ID/$k; [ -f $d/patch.diff ] || continue; [ -f $d/eval.txt ] && continue
  B=$(/verif/tools/pick_base.sh $d/patch.diff)
  BASE=$B /verif/tools/eval_seed.sh $PROP $d/patch.diff quick ${SECS:-30} > $d/eval.txt 2>&1; echo "$ID/$k: $(grep -E 'signature=|EXIT=' $d/eval.txt | tr '\n' ' ' | cut -c1-300)"; done; done
