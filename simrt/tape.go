package simrt

// Tape is a recorded sequence of bounded PRNG draws. In record mode draws come
// from a splitmix64/xoshiro256** generator and are appended to Rec; in replay
// mode they are read back from Rec, draws past the end return 0 (every consumer
// maps 0 to its simplest choice).
type Tape struct {
	Rec    []uint32
	pos    int
	replay bool
	s      [4]uint64
}

func splitmix(x *uint64) uint64 {
	*x += 0x9e3779b97f4a7c15
	z := *x
	z = (z ^ (z >> 30)) * 0xbf58476d1ce4e5b9
	z = (z ^ (z >> 27)) * 0x94d049bb133111eb
	return z ^ (z >> 31)
}

// Mix derives an independent seed from a base seed and an index.
func Mix(seed uint64, i uint64) uint64 {
	x := seed ^ (i+1)*0xd6e8feb86659fd93
	splitmix(&x)
	return splitmix(&x)
}

func NewTape(seed uint64) *Tape {
	t := &Tape{}
	x := seed
	for i := range t.s {
		t.s[i] = splitmix(&x)
	}
	return t
}

func ReplayTape(rec []uint32) *Tape { return &Tape{Rec: rec, replay: true} }

func rotl(x uint64, k uint) uint64 { return (x << k) | (x >> (64 - k)) }

func (t *Tape) next() uint64 {
	s := &t.s
	r := rotl(s[1]*5, 7) * 9
	x := s[1] << 17
	s[2] ^= s[0]
	s[3] ^= s[1]
	s[1] ^= s[2]
	s[0] ^= s[3]
	s[2] ^= x
	s[3] = rotl(s[3], 45)
	return r
}

// Draw returns a value in [0,n). n<=1 returns 0 without consuming the tape.
func (t *Tape) Draw(n int) int {
	if n <= 1 {
		return 0
	}
	if t.replay {
		if t.pos >= len(t.Rec) {
			t.pos++
			return 0
		}
		v := int(t.Rec[t.pos])
		t.pos++
		return v % n
	}
	v := int(t.next() % uint64(n))
	t.Rec = append(t.Rec, uint32(v))
	return v
}

// Pos is the number of draws consumed so far.
func (t *Tape) Pos() int {
	if t.replay {
		return t.pos
	}
	return len(t.Rec)
}

// Sub derives an independent, non-recorded generator from one recorded draw
// (used for byte-level choices such as segment sizes whose individual values
// are not worth shrinking: a zero draw yields a generator that always returns 0).
func (t *Tape) Sub() *Sub {
	v := t.Draw(1 << 30)
	if v == 0 {
		return &Sub{zero: true}
	}
	return &Sub{t: NewTape(uint64(v))}
}

type Sub struct {
	t    *Tape
	zero bool
}

func (s *Sub) Draw(n int) int {
	if s == nil || s.zero || n <= 1 {
		return 0
	}
	return int(s.t.next() % uint64(n))
}
