package harness

import (
	"bufio"
	"bytes"
	"errors"
	"fmt"
	"io"
	"net/http"
	"sort"
	"strings"
	"sync"
	"time"

	"github.com/valyala/fasthttp"
	"verif/simrt"
	"verif/simrt/simnet"
)

// C03: server responses are framed exactly as the handler built them.
// C34: body streams deliver exact bytes and are closed exactly once.

type c03Op struct {
	Op  string `json:"op"`
	A   string `json:"a,omitempty"`
	B   string `json:"b,omitempty"`
	N   int    `json:"n,omitempty"`
	M   int    `json:"m,omitempty"`
	Err string `json:"err,omitempty"` // stream fault: "", err, panic
	At  int    `json:"at,omitempty"`
	Chunk int  `json:"chunk,omitempty"`
	EOFWithData bool `json:"eof_with_last_data,omitempty"` // the stream's last Read returns (n>0, io.EOF)
}

type c03Req struct {
	ID     string  `json:"id"`
	Method string  `json:"method"`
	Proto  string  `json:"proto"`
	Ops    []c03Op `json:"ops"`
}

type c03Conn struct {
	Reqs      []c03Req `json:"reqs"`
	Pipelined bool     `json:"pipelined"`
	Window    int      `json:"client_window"`
	Faults    bool     `json:"net_faults"`
	AbortAt   int      `json:"client_aborts_after_bytes"` // 0: never
}

type c03Plan struct {
	WriteBuf  int       `json:"write_buffer_size"`
	ReduceMem bool      `json:"reduce_memory_usage"`
	Compress  bool      `json:"compress_handler,omitempty"` // handlers run behind CompressHandler and the clients accept AcceptEnc (compressed bodies and body streams)
	AcceptEnc string    `json:"accept_encoding,omitempty"`
	Conns     []c03Conn `json:"conns"`
}

func init() {
	scenarios["C03"] = scenC03
	scenarios["C34"] = scenC03
}

func bodyPat(id string, n int) []byte {
	b := make([]byte, n)
	seed := 0
	for _, c := range id {
		seed = seed*31 + int(c)
	}
	for i := range b {
		b[i] = byte('A' + (i*11+seed+i/23)%26)
	}
	return b
}

func genC03Req(e *Env, id string, streamy bool) c03Req {
	r := c03Req{ID: id, Method: Pick(e, "GET", "GET", "POST", "HEAD"), Proto: Pick(e, "HTTP/1.1", "HTTP/1.1", "HTTP/1.1", "HTTP/1.0")}
	if e.Chance(15) {
		// the handler starts over: whatever it had built is gone (Response.Reset, ctx.Error)
		r.Ops = append(r.Ops, c03Op{Op: "status", N: 503}, c03Op{Op: "set", A: "X-Junk", B: "junk-" + id}, c03Op{Op: "body", N: 77})
		if e.Chance(30) {
			r.Ops = append(r.Ops, c03Op{Op: "stream", N: 300, M: 300, Chunk: 100})
		}
		r.Ops = append(r.Ops, c03Op{Op: Pick(e, "reset", "error"), A: "failed " + id, N: Pick(e, 400, 404, 500)})
	}
	statusAt := -1
	if e.Chance(60) {
		statusAt = len(r.Ops)
		r.Ops = append(r.Ops, c03Op{Op: "status", N: Pick(e, 200, 201, 204, 304, 299, 404, 500, 600, 999, 206)})
	}
	if e.Chance(15) {
		r.Ops = append(r.Ops, c03Op{Op: "statusmsg", A: Pick(e, "Fine", "Very Fine Indeed", "X")})
	}
	nh := e.Range(0, 3)
	for i := 0; i < nh; i++ {
		switch Pick(e, "set", "set", "add2", "ctype", "cookie") {
		case "set":
			r.Ops = append(r.Ops, c03Op{Op: "set", A: fmt.Sprintf("X-S%d", e.Int(3)), B: "v-" + id + fmt.Sprint(i)})
		case "add2":
			r.Ops = append(r.Ops, c03Op{Op: "add", A: "X-Multi", B: "m1-" + id}, c03Op{Op: "add", A: "X-Multi", B: "m2-" + id})
		case "ctype":
			r.Ops = append(r.Ops, c03Op{Op: "ctype", A: "application/x-" + id})
		case "cookie":
			r.Ops = append(r.Ops, c03Op{Op: "cookie", A: "ck" + fmt.Sprint(e.Int(2)), B: "cv-" + id})
		}
	}
	sizes := []int{0, 1, 10, 100, 4095, 4096, 4097, 9000, 20000}
	kinds := []string{"string", "string", "append", "raw", "raw", "stream", "stream", "streamwriter", "none", "skipbody"}
	if streamy {
		kinds = []string{"stream", "stream", "stream", "streamwriter", "string"}
	}
	switch Pick(e, kinds...) {
	case "string":
		r.Ops = append(r.Ops, c03Op{Op: "body", N: sizes[e.Int(len(sizes))]})
	case "append":
		r.Ops = append(r.Ops, c03Op{Op: "body", N: sizes[e.Int(5)]}, c03Op{Op: "append", N: sizes[e.Int(5)]})
	case "raw":
		r.Ops = append(r.Ops, c03Op{Op: "raw", N: sizes[e.Int(len(sizes))]})
	case "stream":
		n := sizes[e.Int(len(sizes))]
		op := c03Op{Op: "stream", N: n, Chunk: Pick(e, 4096, 1, 7, 100, 5000, 100000)}
		switch Pick(e, "exact", "exact", "exact", "unknown", "short", "long", "zero-declared") {
		case "exact":
			op.M = n
		case "unknown":
			op.M = -1
		case "short":
			op.M = n + Pick(e, 1, 10, 5000)
		case "long":
			op.M = n - Pick(e, 1, 10, 5000)
			if op.M < 0 {
				op.M = 0
			}
		case "zero-declared":
			op.M = 0
		}
		if streamy || e.Chance(20) {
			op.Err = Pick(e, "", "", "", "err", "panic")
			op.At = e.Int(n + 1)
		}
		op.EOFWithData = e.Chance(30)
		r.Ops = append(r.Ops, op)
	case "streamwriter":
		r.Ops = append(r.Ops, c03Op{Op: "streamwriter", N: sizes[e.Int(len(sizes))], Chunk: Pick(e, 1, 10, 1000, 5000), M: Pick(e, 0, 1, 3)})
	case "skipbody":
		r.Ops = append(r.Ops, c03Op{Op: "body", N: 50}, c03Op{Op: "skipbody"})
	}
	if e.Chance(8) {
		r.Ops = append(r.Ops, c03Op{Op: "connclose"})
	}
	if e.Chance(6) {
		r.Ops = append(r.Ops, c03Op{Op: Pick(e, "hand-cl", "hand-te")})
	}
	if e.Chance(8) && len(r.Ops) > 0 {
		// replace the stream: a later SetBody* must close the earlier stream
		r.Ops = append(r.Ops, c03Op{Op: "body", N: 33})
	}
	if statusAt >= 0 && e.Chance(35) {
		// the status is decided last (after the body was attached)
		st := r.Ops[statusAt]
		r.Ops = append(append(r.Ops[:statusAt:statusAt], r.Ops[statusAt+1:]...), st)
	}
	return r
}

func scenC03(e *Env) func() {
	streamy := e.Prop == "C34"
	p := &c03Plan{WriteBuf: Pick(e, 4096, 4096, 512, 16384), ReduceMem: e.Chance(30), Compress: e.Chance(Pick(e, 30, 20)), AcceptEnc: Pick(e, "gzip", "deflate", "deflate", "br", "zstd", "gzip, deflate")}
	if !streamy && !p.Compress {
		p.AcceptEnc = ""
	}
	nconn := e.Range(1, 3)
	var subs []simnet.Faults
	for ci := 0; ci < nconn; ci++ {
		c := c03Conn{Pipelined: e.Chance(40), Window: Pick(e, 0, 0, 1, 100, 5000), Faults: e.Chance(30)}
		if streamy && e.Chance(35) {
			c.AbortAt = Pick(e, 1, 100, 4000, 9000)
		}
		n := e.Range(1, 4)
		for i := 0; i < n; i++ {
			c.Reqs = append(c.Reqs, genC03Req(e, fmt.Sprintf("%d-%d", ci, i), streamy))
		}
		p.Conns = append(p.Conns, c)
		f := simnet.Faults{}
		if c.Faults {
			f = simnet.Faults{Short: e.W.Sub(), Lat: e.W.Sub()}
		}
		subs = append(subs, f)
	}
	e.Sample = p
	e.Cfg.Holds, e.Cfg.HoldMax = Pick(e, 0, 0, 2), 100*time.Millisecond
	return func() { c03Run(e, p, subs) }
}

// instrumented stream
type instrStream struct {
	id       string
	data     []byte
	off      int
	chunk    int
	fault    string
	at       int
	eofData  bool
	slowClose bool
	reads    int
	closes   int
	readAfterClose int
	mu       sync.Mutex
}

func (s *instrStream) Read(p []byte) (int, error) {
	s.mu.Lock()
	defer s.mu.Unlock()
	s.reads++
	if s.closes > 0 {
		s.readAfterClose++
	}
	if s.fault != "" && s.off >= s.at {
		if s.fault == "panic" {
			panic("instrumented stream panic " + s.id)
		}
		return 0, errors.New("instrumented stream error " + s.id)
	}
	if s.off >= len(s.data) {
		return 0, io.EOF
	}
	n := len(p)
	if n > s.chunk {
		n = s.chunk
	}
	if n > len(s.data)-s.off {
		n = len(s.data) - s.off
	}
	if s.fault != "" && s.off+n > s.at {
		n = s.at - s.off
	}
	copy(p, s.data[s.off:s.off+n])
	s.off += n
	if s.eofData && n > 0 && s.off >= len(s.data) && (s.fault == "" || s.at > len(s.data)) {
		return n, io.EOF // io.Reader allows the last bytes and EOF in one call
	}
	return n, nil
}

func (s *instrStream) Close() error {
	s.mu.Lock()
	s.closes++
	slow := s.slowClose
	s.mu.Unlock()
	if slow {
		time.Sleep(time.Millisecond) // a Close that takes a moment: others may run meanwhile
	}
	return nil
}

// model of what a request's program should put on the wire
type c03Model struct {
	status    int
	msg       string
	set       map[string]string
	multi     []string
	ctype     string
	cookies   map[string]string
	body      []byte
	chunked   bool // unknown length
	declared  int  // declared stream size, -2: not a sized stream
	produced  int  // bytes the stream can produce before fault/EOF
	fault     string
	noBody    bool
	close     bool
	undefined string // program whose meaning the docs leave open
	streams   []*instrStream
}

func c03Apply(ctx *fasthttp.RequestCtx, r *c03Req) *c03Model {
	m := &c03Model{status: 200, set: map[string]string{}, cookies: map[string]string{}, declared: -2}
	setBody := func(b []byte) {
		m.body, m.chunked, m.declared, m.fault = b, false, -2, ""
	}
	for _, op := range r.Ops {
		switch op.Op {
		case "status":
			ctx.SetStatusCode(op.N)
			m.status = op.N
		case "statusmsg":
			ctx.Response.Header.SetStatusMessage([]byte(op.A))
			m.msg = op.A
		case "set":
			ctx.Response.Header.Set(op.A, op.B)
			m.set[op.A] = op.B
		case "add":
			ctx.Response.Header.Add(op.A, op.B)
			m.multi = append(m.multi, op.B)
		case "ctype":
			ctx.SetContentType(op.A)
			m.ctype = op.A
		case "cookie":
			var c fasthttp.Cookie
			c.SetKey(op.A)
			c.SetValue(op.B)
			ctx.Response.Header.SetCookie(&c)
			m.cookies[op.A] = op.B
		case "body":
			b := bodyPat(r.ID+"b", op.N)
			ctx.SetBody(b)
			setBody(b)
		case "append":
			b := bodyPat(r.ID+"a", op.N)
			ctx.Response.AppendBody(b)
			m.body = append(append([]byte(nil), m.body...), b...)
		case "raw":
			b := bodyPat(r.ID+"r", op.N)
			ctx.Response.SetBodyRaw(b)
			setBody(b)
		case "stream":
			st := &instrStream{id: r.ID, data: bodyPat(r.ID+"s", op.N), chunk: op.Chunk, fault: op.Err, at: op.At, eofData: op.EOFWithData, slowClose: op.Chunk%2 == 1}
			m.streams = append(m.streams, st)
			ctx.SetBodyStream(st, op.M)
			m.produced = op.N
			if op.Err != "" && op.At < op.N {
				m.produced = op.At
			}
			if op.Err != "" {
				m.fault = op.Err
			} else {
				m.fault = ""
			}
			m.body = st.data[:m.produced]
			m.declared = op.M
			m.chunked = op.M < 0
		case "streamwriter":
			data := bodyPat(r.ID+"w", op.N)
			chunk, flushEvery := op.Chunk, op.M
			ctx.SetBodyStreamWriter(func(w *bufio.Writer) {
				for off, i := 0, 0; off < len(data); i++ {
					n := chunk
					if n > len(data)-off {
						n = len(data) - off
					}
					w.Write(data[off : off+n])
					off += n
					if flushEvery > 0 && i%flushEvery == 0 {
						if w.Flush() != nil {
							return
						}
					}
				}
			})
			m.body, m.chunked, m.declared, m.fault = data, true, -1, ""
		case "reset", "error":
			streams := m.streams
			m = &c03Model{status: 200, set: map[string]string{}, cookies: map[string]string{}, declared: -2, streams: streams}
			if op.Op == "reset" {
				ctx.Response.Reset()
			} else {
				ctx.Error(op.A, op.N)
				m.status, m.body, m.ctype = op.N, []byte(op.A), "text/plain; charset=utf-8"
			}
		case "skipbody":
			ctx.Response.SkipBody = true
			m.noBody = true
			if r.Method != "HEAD" {
				// documented for HEAD responses only: headers announce a body that is not sent
				m.undefined = "SkipBody on a non-HEAD response"
			}
		case "connclose":
			ctx.SetConnectionClose()
			m.close = true
		case "hand-cl":
			ctx.Response.Header.Set("Content-Length", "3")
			m.undefined = "Content-Length set by hand"
		case "hand-te":
			ctx.Response.Header.Set("Transfer-Encoding", "chunked")
			m.undefined = "Transfer-Encoding set by hand"
		}
	}
	return m
}

func c03Run(e *Env, p *c03Plan, subs []simnet.Faults) {
	s := &fasthttp.Server{WriteBufferSize: p.WriteBuf, ReduceMemoryUsage: p.ReduceMem, IdleTimeout: time.Minute}
	k := NewServerKit(e, s)
	byID := map[string]*c03Req{}
	for ci := range p.Conns {
		for i := range p.Conns[ci].Reqs {
			byID[p.Conns[ci].Reqs[i].ID] = &p.Conns[ci].Reqs[i]
		}
	}
	var mu sync.Mutex
	models := map[string]*c03Model{}
	inner := func(ctx *fasthttp.RequestCtx) {
		id := string(ctx.QueryArgs().Peek("id"))
		r := byID[id]
		if r == nil {
			return
		}
		m := c03Apply(ctx, r)
		mu.Lock()
		models[id] = m
		mu.Unlock()
	}
	handler := inner
	if p.Compress {
		handler = fasthttp.CompressHandler(inner)
	}
	k.Handle = func(ctx *fasthttp.RequestCtx, inv *Inv) { handler(ctx) }
	k.Start()
	type connRes struct {
		raw      []byte
		srvSent  func() []byte
		closed   bool
		aborted  bool
	}
	res := make([]*connRes, len(p.Conns))
	var fs []func()
	for ci := range p.Conns {
		ci := ci
		c := p.Conns[ci]
		fs = append(fs, func() {
			conn, err := k.Dial(fmt.Sprintf("10.0.3.%d", ci+1))
			if err != nil {
				return
			}
			conn.F = subs[ci]
			// the server's writes are bounded by the client's receive window
			conn.Peer().F.Window = c.Window
			cr := &connRes{srvSent: conn.Peer().Sent}
			res[ci] = cr
			var reqs [][]byte
			for _, r := range c.Reqs {
				body := ""
				hdr := ""
				if r.Method == "POST" {
					body = "x=1"
					hdr = "Content-Length: 3\r\n"
				}
				if r.Proto == "HTTP/1.0" {
					hdr += "Connection: keep-alive\r\n"
				}
				if p.Compress {
					hdr += "Accept-Encoding: " + p.AcceptEnc + "\r\n"
				}
				reqs = append(reqs, []byte(fmt.Sprintf("%s /c3?id=%s %s\r\nHost: x\r\n%s\r\n%s", r.Method, r.ID, r.Proto, hdr, body)))
			}
			readAll := func(limit int) {
				buf := make([]byte, 4096)
				for {
					conn.SetReadDeadline(time.Now().Add(45 * time.Second))
					n, err := conn.Read(buf)
					cr.raw = append(cr.raw, buf[:n]...)
					if limit > 0 && len(cr.raw) >= limit {
						cr.aborted = true
						conn.Reset()
						return
					}
					if err != nil {
						cr.closed = !isTimeout(err)
						return
					}
				}
			}
			if c.Pipelined {
				var all []byte
				for _, b := range reqs {
					all = append(all, b...)
				}
				conn.Write(all)
				readAll(c.AbortAt)
			} else {
				// sequential: send one, read until its response is complete (parsed), then next
				for i, b := range reqs {
					if _, err := conn.Write(b); err != nil {
						break
					}
					done := false
					buf := make([]byte, 4096)
					for !done {
						conn.SetReadDeadline(time.Now().Add(45 * time.Second))
						n, err := conn.Read(buf)
						cr.raw = append(cr.raw, buf[:n]...)
						if c.AbortAt > 0 && len(cr.raw) >= c.AbortAt {
							cr.aborted = true
							conn.Reset()
							return
						}
						if err != nil {
							cr.closed = !isTimeout(err)
							return
						}
						if countResponses(cr.raw, c.Reqs) > i {
							done = true
						}
					}
				}
				readAll(c.AbortAt)
			}
			conn.Close()
		})
	}
	if !WaitAll(2*time.Hour, "conn", fs...) {
		e.Violation("liveness/clients", "clients did not finish")
		return
	}
	time.Sleep(2 * time.Second)
	e.Nontrivial = true
	for ci, cr := range res {
		if cr == nil {
			continue
		}
		c03Judge(e, p, ci, cr.raw, cr.srvSent(), cr.aborted, cr.closed, models, &mu)
		if e.Failed() {
			return
		}
	}
	// C34: every stream that was handed to a response is closed exactly once
	// by now (response written, reset or released; the connection is gone)
	mu.Lock()
	defer mu.Unlock()
	var ids []string
	for id := range models {
		ids = append(ids, id)
	}
	sort.Strings(ids)
	for _, id := range ids {
		for si, st := range models[id].streams {
			e.Ob(1)
			st.mu.Lock()
			closes, rac, fault := st.closes, st.readAfterClose, st.fault
			st.mu.Unlock()
			ctxs := "ok"
			if fault != "" {
				ctxs = fault
			}
			if closes != 1 {
				e.Violation(fmt.Sprintf("stream-close/%d-%s", min(closes, 2), ctxs), "request %s: body stream #%d (fault %q) was closed %d times by the time its connection was finished", id, si, fault, closes)
				return
			}
			if rac > 0 {
				if p.Compress {
					// the compressing goroutine may be in the middle of a copy when the
					// compressed stream is discarded: the statement is about closing
					e.Probe("compressed-stream-read-after-discard")
					continue
				}
				e.Violation("stream-read-after-close", "request %s: body stream read %d times after Close", id, rac)
				return
			}
		}
	}
	k.Shutdown(time.Minute)
	_ = simrt.Step
}

// countResponses parses as many complete responses as raw holds.
func countResponses(raw []byte, reqs []c03Req) int {
	br := bufio.NewReader(bytes.NewReader(raw))
	n := 0
	for n < len(reqs) {
		resp, err := http.ReadResponse(br, &http.Request{Method: reqs[n].Method})
		if err != nil {
			return n
		}
		_, err = io.Copy(io.Discard, resp.Body)
		resp.Body.Close()
		if err != nil {
			return n
		}
		n++
	}
	return n
}

func c03Judge(e *Env, p *c03Plan, ci int, raw, sent []byte, aborted, closed bool, models map[string]*c03Model, mu *sync.Mutex) {
	c := p.Conns[ci]
	br := bufio.NewReader(bytes.NewReader(raw))
	for i, r := range c.Reqs {
		mu.Lock()
		m := models[r.ID]
		mu.Unlock()
		if m == nil {
			return // never dispatched (connection ended earlier)
		}
		if m.undefined != "" {
			e.Probe("undefined-program")
			return
		}
		start := len(raw) - br.Buffered()
		_ = start
		resp, err := http.ReadResponse(br, &http.Request{Method: r.Method})
		if err != nil {
			if aborted {
				return
			}
			if closed && (m.fault != "" || (m.declared >= 0 && m.declared != len(m.body))) {
				e.Probe("faulty-stream-closed-without-response")
				return // a failed stream may close the connection before anything is flushed
			}
			e.Violation("parse/head", "conn %d response %d (%s): the bytes the server wrote do not parse as an HTTP response: %v; bytes: %q", ci, i, r.ID, err, clip(string(raw[min(start, len(raw)):]), 300))
			return
		}
		body, berr := io.ReadAll(resp.Body)
		resp.Body.Close()
		e.Ob(1)
		tag := fmt.Sprintf("conn %d response %d (%s %s %s, program %+v)", ci, i, r.ID, r.Method, r.Proto, r.Ops)
		if p.Compress {
			// behind CompressHandler the framing is the compressor's; what is judged is the
			// decoded content of intact streams (and, below, the close accounting of every stream)
			if m.fault == "" && (m.declared < 0 || m.declared == len(m.body)) && !noBodyFor(r.Method, m) && berr == nil && !aborted {
				dec := body
				if ce := resp.Header.Get("Content-Encoding"); ce != "" {
					var err error
					if ce == "deflate" {
						dec, err = inflateAny(body)
					} else {
						dec, err = decodeBody(ce, body)
					}
					if err != nil {
						e.Violation("body/compressed", "%s: the %s body does not decode: %v", tag, ce, err)
						return
					}
					e.Probe("compressed-" + ce)
				}
				if !bytes.Equal(dec, m.body) {
					e.Violation("body/compressed", "%s: decoded body has %d bytes, the handler built %d (first difference at %d)", tag, len(dec), len(m.body), firstDiff(dec, m.body))
					return
				}
			}
			if m.close || resp.Close || m.fault != "" || (m.declared >= 0 && m.declared != len(m.body)) {
				return
			}
			continue
		}
		if resp.StatusCode != m.status {
			e.Violation("status", "%s: status %d on the wire, handler set %d", tag, resp.StatusCode, m.status)
			return
		}
		if m.msg != "" && !strings.HasSuffix(resp.Status, " "+m.msg) {
			e.Violation("status-message", "%s: status line %q, handler set message %q", tag, resp.Status, m.msg)
			return
		}
		for name, v := range m.set {
			if got := resp.Header.Values(name); len(got) != 1 || got[0] != v {
				e.Violation("header/set", "%s: header %s = %q on the wire, handler set %q", tag, name, got, v)
				return
			}
		}
		if _, junk := m.set["X-Junk"]; !junk && len(resp.Header.Values("X-Junk")) > 0 {
			e.Violation("header/after-reset", "%s: header X-Junk: %q on the wire although the handler reset the response after setting it", tag, resp.Header.Values("X-Junk"))
			return
		}
		if got := resp.Header.Values("X-Multi"); strings.Join(got, ",") != strings.Join(m.multi, ",") {
			e.Violation("header/add", "%s: X-Multi = %q on the wire, handler added %q", tag, got, m.multi)
			return
		}
		if m.ctype != "" && resp.Header.Get("Content-Type") != m.ctype {
			e.Violation("header/content-type", "%s: Content-Type %q, handler set %q", tag, resp.Header.Get("Content-Type"), m.ctype)
			return
		}
		gotCk := map[string]string{}
		for _, ck := range resp.Cookies() {
			gotCk[ck.Name] = ck.Value
		}
		if fmt.Sprint(gotCk) != fmt.Sprint(m.cookies) {
			e.Violation("header/cookie", "%s: cookies %v on the wire, handler set %v", tag, gotCk, m.cookies)
			return
		}
		noBody := r.Method == "HEAD" || m.status == 204 || m.status == 304 || (m.status >= 100 && m.status < 200) || m.noBody
		// a Content-Length on the wire is the length of the body this handler
		// built (also where the body itself is not sent: HEAD, 204, 304),
		// never a value left over from another response
		if cl := resp.Header.Values("Content-Length"); len(cl) > 0 && !(m.declared >= 0 && m.declared != len(m.body)) && m.fault == "" {
			want := fmt.Sprint(len(m.body))
			if m.declared >= 0 {
				want = fmt.Sprint(m.declared)
			}
			if len(cl) != 1 || cl[0] != want || m.chunked {
				e.Violation("header/content-length", "%s: Content-Length %q on the wire, the handler built a body of %s bytes (unknown size: %v)", tag, cl, want, m.chunked)
				return
			}
		}
		// body
		// m.body is what the stream yields before it ends (EOF) or fails (error/panic)
		sized := m.declared >= 0
		streamFault := (sized && m.declared != len(m.body)) || (!sized && m.fault != "")
		if sized && m.declared == len(m.body) && m.fault != "" {
			// the stream fails exactly where its declared size ends: the
			// failure may or may not be observed; the body itself is exact
			e.Probe("stream-fault-at-declared-end")
			if !bytes.Equal(body, m.body) && !(noBodyFor(r.Method, m)) {
				e.Violation("body/stream-exact", "%s: %d body bytes on the wire, the stream produced its declared %d", tag, len(body), m.declared)
			}
			return
		}
		switch {
		case noBody:
			if len(body) != 0 {
				e.Violation("no-body", "%s: %d body bytes on the wire for a response that must not have a body", tag, len(body))
				return
			}
			if r.Method == "HEAD" || m.noBody {
				// a stream behind a bodiless response is not this rule's subject
			}
		case streamFault:
			// the declared size bounds what may be put on the wire; then close
			limit := len(m.body)
			if sized && m.declared < limit {
				limit = m.declared
			}
			if sized && len(body) > m.declared {
				e.Violation("declared-size/exceeded", "%s: stream declared %d bytes, %d body bytes were put on the wire", tag, m.declared, len(body))
				return
			}
			if !bytes.HasPrefix(m.body, body) && !(len(body) >= limit && bytes.HasPrefix(body, m.body[:limit])) {
				e.Violation("body/stream-prefix", "%s: body on the wire is not a prefix of what the stream produced (first difference at %d)", tag, firstDiff(body, m.body))
				return
			}
			// raw tap: nothing after this response, and at most declared bytes of it
			if sized {
				idx := bytes.Index(sent, []byte("\r\n\r\n"))
				_ = idx
			}
			if !aborted && !closed {
				e.Violation("declared-size/not-closed", "%s: the stream yielded a different number of bytes than declared (declared %d, produced %d, fault %q) and the connection was left open", tag, m.declared, len(m.body), m.fault)
				return
			}
			// more responses must not follow on this connection
			if _, err := http.ReadResponse(br, &http.Request{Method: "GET"}); err == nil && !sizedExactPrefix(m) {
				e.Violation("declared-size/continued", "%s: another response follows a response whose stream broke its declared size", tag)
			}
			return
		default:
			if berr != nil && !aborted {
				e.Violation("body/truncated", "%s: body ends early on the wire: %v after %d of %d bytes", tag, berr, len(body), len(m.body))
				return
			}
			if aborted && berr != nil {
				return
			}
			if !bytes.Equal(body, m.body) {
				e.Violation("body", "%s: %d body bytes on the wire, handler built %d (first difference at %d)", tag, len(body), len(m.body), firstDiff(body, m.body))
				return
			}
		}
		if m.close || resp.Close {
			return
		}
	}
	// nothing but the responses on the wire
	if rest, _ := io.ReadAll(br); len(rest) > 0 && !aborted {
		e.Violation("trailing-bytes", "conn %d: %d unexpected bytes after the last response: %q", ci, len(rest), clip(string(rest), 200))
	}
}

func sizedExactPrefix(m *c03Model) bool { return false }

func noBodyFor(method string, m *c03Model) bool {
	return method == "HEAD" || m.status == 204 || m.status == 304 || (m.status >= 100 && m.status < 200) || m.noBody
}
