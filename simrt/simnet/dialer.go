package simnet

import (
	"context"
	"errors"
	"net"
)

// Dialer replaces net.Dialer in instrumented code (tcpdialer.go): no real
// socket can be opened from inside the simulation. The harness installs
// DialHook.
type Dialer struct {
	LocalAddr net.Addr
}

var DialHook func(ctx context.Context, network, addr string) (net.Conn, error)

func (d *Dialer) DialContext(ctx context.Context, network, addr string) (net.Conn, error) {
	if DialHook == nil {
		return nil, errors.New("simnet: no DialHook installed")
	}
	return DialHook(ctx, network, addr)
}
