package harness

import (
	"bufio"
	"fmt"
	"net"
	"strconv"
	"strings"
	"sync/atomic"
	"time"

	"github.com/valyala/fasthttp"
	"verif/simrt"
	"verif/simrt/simnet"
)

// Server life-cycle scenario shared by C12 (limits and counters), C13 (worker
// pool), C14 (ConnState machine) and C15 (graceful shutdown): connections
// arrive from a few addresses and behave per script while the scheduler
// interleaves accept loop, workers, cleaner, handlers and Shutdown.

type lifeAct struct {
	Kind      string `json:"kind"` // req pipelined partial bad hijack wait silent
	Ms        int    `json:"ms,omitempty"`
	HandlerMs int    `json:"handler_ms,omitempty"`
	N         int    `json:"n,omitempty"`
}

type lifeConn struct {
	IP       string    `json:"ip"`
	StartMs  int       `json:"start_ms"`
	CloseErr bool      `json:"server_close_reports_error"`
	Acts     []lifeAct `json:"acts"`
	EndClose bool      `json:"client_closes"`
}

type lifePlan struct {
	Mode            string     `json:"mode"`
	Concurrency     int        `json:"concurrency"`
	MaxPerIP        int        `json:"max_conns_per_ip"`
	ReduceMem       bool       `json:"reduce_memory_usage"`
	StreamReq       bool       `json:"stream_request_body,omitempty"`
	IdleTimeoutMs   int        `json:"idle_timeout_ms"`
	ReadTimeoutMs   int        `json:"read_timeout_ms"`
	MaxIdleWorkerMs int        `json:"max_idle_worker_ms"`
	KeepHijacked    bool       `json:"keep_hijacked_conns"`
	CloseOnShutdown bool       `json:"close_on_shutdown"`
	ShutdownMs      int        `json:"shutdown_ms"`
	SecondRound     bool       `json:"serve_and_shutdown_again,omitempty"`
	TrickleCheckMs  int        `json:"trickle_check_ms,omitempty"` // C13: a burst, then a long trickle of short connections; worker census taken at this instant // C15: the same Server is served and shut down a second time
	Conns           []lifeConn `json:"conns"`
}

type stateEv struct {
	State   fasthttp.ConnState
	Step    int
	At      time.Duration
	Arrived int64
}

type lifeConnRec struct {
	idx        int
	addr       string
	client     *simnet.Conn
	states     []stateEv
	reqEnds    []int64 // cumulative client bytes after each complete request written
	resps      []int
	rejected   int
	invoked    int32 // handler entries
	completed  int32
	startAt    time.Duration
	lastHandEnd time.Duration
	done       bool
	serverClosed bool
	hijackOK   bool
	foreign    int
	hijackCalled int32 // handlers on this connection that called ctx.Hijack
	hijackRan    int32 // hijack handlers that were started for it
}

type lifeRun struct {
	e *Env
	p *lifePlan
	k *ServerKit
	s *fasthttp.Server

	recs    map[string]*lifeConnRec // by client addr
	byPtr   map[net.Conn]*lifeConnRec
	orphan  []string // state events that could not be attributed
	cur, peak int32
	hijackCur int32
	shutdownStart, shutdownRet time.Duration
	round2Started, round2Done int32
	trickleSeen    bool
	trickleWorkers int
	shutdownErr error
	doneOpenDuringShutdown int
	workersPeak int
	concPeak uint32
}

func init() {
	for _, id := range []string{"C12", "C13", "C14", "C15"} {
		scenarios[id] = scenLife
	}
}

func genLifePlan(e *Env) *lifePlan {
	p := &lifePlan{
		Mode:            Pick(e, "serve", "serve", "serve", "serveconn"),
		Concurrency:     Pick(e, 0, 1, 2, 3, 2),
		MaxPerIP:        Pick(e, 0, 1, 2, 0),
		ReduceMem:       e.Chance(35),
		StreamReq:       e.Chance(25),
		IdleTimeoutMs:   Pick(e, 0, 1500, 600000),
		ReadTimeoutMs:   Pick(e, 0, 0, 4000),
		MaxIdleWorkerMs: Pick(e, 0, 200, 1000),
		KeepHijacked:    e.Chance(25),
		CloseOnShutdown: e.Chance(30),
		ShutdownMs:      -1,
	}
	if e.Prop == "C13" {
		p.Mode = "serve"
		p.Concurrency = Pick(e, 1, 2, 3)
		if e.Chance(50) {
			// Stop arrives while connections are still being served
			p.ShutdownMs = Pick(e, 0, 10, 100, 300, 1000, 2500)
		}
	}
	if e.Prop == "C15" {
		p.Mode = "serve"
		p.ShutdownMs = Pick(e, 0, 10, 100, 300, 1000, 2500)
		if p.IdleTimeoutMs == 1500 {
			p.IdleTimeoutMs = 600000
		}
		p.SecondRound = e.Chance(35)
	}
	n := e.Range(2, 7)
	ips := []string{"10.1.0.1", "10.1.0.2", "10.1.0.3"}
	for i := 0; i < n; i++ {
		c := lifeConn{IP: ips[e.Int(Pick(e, 1, 2, 3))], StartMs: Pick(e, 0, 0, 1, 50, 300, 1200), EndClose: e.Chance(60)}
		c.CloseErr = e.Chance(15)
		na := e.Range(1, 4)
		for j := 0; j < na; j++ {
			a := lifeAct{Kind: Pick(e, "req", "req", "req", "pipelined", "partial", "bad", "hijack", "wait", "silent")}
			switch a.Kind {
			case "req", "pipelined", "hijack":
				a.HandlerMs = Pick(e, 0, 0, 20, 400, 2000)
			case "partial":
				a.N = e.Range(1, 20)
				a.Ms = Pick(e, 1, 100, 1000)
				a.HandlerMs = Pick(e, 0, 50)
			case "wait", "silent":
				a.Ms = Pick(e, 1, 100, 1000, 3000, 7000)
			}
			c.Acts = append(c.Acts, a)
			if a.Kind == "bad" || a.Kind == "hijack" {
				break
			}
		}
		p.Conns = append(p.Conns, c)
	}
	if e.Prop == "C13" && p.ShutdownMs < 0 && e.Chance(20) {
		// burst, then a trickle that keeps one worker busy for much longer than the idle
		// limit: the workers the burst left idle must be retired during the trickle
		idle := 200
		p.MaxIdleWorkerMs, p.Concurrency, p.MaxPerIP, p.Mode = idle, 3, 0, "serve"
		p.Conns = nil
		for i := 0; i < 3; i++ {
			p.Conns = append(p.Conns, lifeConn{IP: "10.1.0.1", StartMs: 0, EndClose: true, Acts: []lifeAct{{Kind: "req", HandlerMs: 20}}})
		}
		n := 24
		for i := 0; i < n; i++ {
			p.Conns = append(p.Conns, lifeConn{IP: "10.1.0.2", StartMs: 300 + i*idle/2, EndClose: true, Acts: []lifeAct{{Kind: "req"}}})
		}
		p.TrickleCheckMs = 300 + (n-1)*idle/2
	}
	if p.ShutdownMs >= 0 && e.Chance(40) {
		// align the Shutdown/Stop instant with an event of one connection (its start, or the
		// end of one of its handlers): events at the same simulated instant are interleaved
		// by the scheduler at lock/atomic granularity, which a random instant almost never is
		c := p.Conns[e.Int(len(p.Conns))]
		t := c.StartMs
		upto := e.Int(len(c.Acts) + 1)
		for _, a := range c.Acts[:upto] {
			t += a.HandlerMs + a.Ms
		}
		p.ShutdownMs = t
	}
	return p
}

func scenLife(e *Env) func() {
	p := genLifePlan(e)
	e.Sample = p
	e.Cfg.Holds, e.Cfg.HoldMax = Pick(e, 0, 0, 1, 3), 300*time.Millisecond
	if focus := e.Chance(50); focus && p.ShutdownMs >= 0 && p.Mode == "serve" {
		// the slow-task faults go to whatever runs at the very instant Shutdown starts: the
		// windows between a worker's, the accept loop's and Shutdown's own steps get stretched
		e.Cfg.Holds, e.Cfg.Strategy = 3, 0
		e.Cfg.HoldFocusAt, e.Cfg.HoldFocusFor = 2*time.Second+ms(p.ShutdownMs), Pick(e, 0, 0, time.Millisecond, 50*time.Millisecond)
	}
	e.Cfg.PoolAdversarial = e.Chance(30)
	r := &lifeRun{e: e, p: p, recs: map[string]*lifeConnRec{}, byPtr: map[net.Conn]*lifeConnRec{}, shutdownStart: -1, shutdownRet: -1}
	e.Cfg.Monitor = r.monitor
	e.Cfg.StackProbe = "workerPool).workerFunc"
	return r.run
}

func (r *lifeRun) monitor() {
	if r.s == nil {
		return
	}
	// (a worker is the goroutine getCh starts for as long as it runs workerFunc: what it does
	// after workerFunc has returned - handing its channel back to a pool - is no worker's work
	// and the pool rightly does not count it any more)
	if n := simrt.CensusInside("workerPool.getCh"); n > r.workersPeak {
		r.workersPeak = n
	}
	if c := r.s.GetCurrentConcurrency(); c > r.concPeak {
		r.concPeak = c
	}
	if r.p.TrickleCheckMs > 0 && !r.trickleSeen && Now() >= 2*time.Second+ms(r.p.TrickleCheckMs) {
		r.trickleSeen, r.trickleWorkers = true, simrt.CensusInside("workerPool.getCh")
	}
}

func (r *lifeRun) limit() int {
	if r.p.Concurrency > 0 {
		return r.p.Concurrency
	}
	return fasthttp.DefaultConcurrency
}

func (r *lifeRun) onState(c net.Conn, st fasthttp.ConnState) {
	rec := r.byPtr[c]
	if st == fasthttp.StateNew || rec == nil || rec.terminal() {
		// a new life for this net.Conn value: find the client by address
		addr := ""
		func() {
			defer func() { recover() }()
			addr = c.RemoteAddr().String()
		}()
		nr := r.recs[addr]
		if nr == nil {
			r.orphan = append(r.orphan, fmt.Sprintf("%v on a connection that cannot be identified (addr %q, step %d)", st, addr, simrt.Step()))
			return
		}
		if rec != nil && !rec.terminal() && st == fasthttp.StateNew {
			r.orphan = append(r.orphan, fmt.Sprintf("StateNew for %s delivered on a net.Conn value whose previous connection %s has not reached a terminal state (step %d)", addr, rec.addr, simrt.Step()))
		}
		rec = nr
		r.byPtr[c] = rec
	}
	ev := stateEv{State: st, Step: simrt.Step(), At: Now()}
	if rec.client != nil {
		ev.Arrived = rec.client.Peer().Arrived()
	}
	rec.states = append(rec.states, ev)
}

func (rec *lifeConnRec) terminal() bool {
	if n := len(rec.states); n > 0 {
		s := rec.states[n-1].State
		return s == fasthttp.StateClosed || s == fasthttp.StateHijacked
	}
	return false
}

func (r *lifeRun) handler(ctx *fasthttp.RequestCtx, inv *Inv) {
	rec := r.recs[inv.Conn]
	cur := atomic.AddInt32(&r.cur, 1)
	for {
		pk := atomic.LoadInt32(&r.peak)
		if cur <= pk || atomic.CompareAndSwapInt32(&r.peak, pk, cur) {
			break
		}
	}
	if rec != nil {
		atomic.AddInt32(&rec.invoked, 1)
	}
	if strings.HasPrefix(inv.URI, "/round2") {
		// second Serve/Shutdown round: wait for Done, which the second Shutdown must close
		atomic.AddInt32(&r.round2Started, 1)
		select {
		case <-ctx.Done():
			atomic.AddInt32(&r.round2Done, 1)
		case <-time.After(45 * time.Second):
		}
		ctx.SetBodyString("round2")
		atomic.AddInt32(&r.cur, -1)
		return
	}
	ms, _ := strconv.Atoi(string(ctx.QueryArgs().Peek("h")))
	if ms > 0 {
		time.Sleep(time.Duration(ms) * time.Millisecond)
	}
	if r.shutdownStart >= 0 && r.shutdownRet < 0 && ms > 0 {
		// shutdown began (at least 1 handler-sleep ago or during it): Done must be closed
		select {
		case <-ctx.Done():
		default:
			// longer than the run's whole slow-task budget: the Shutdown call
			// itself cannot still be on its way to closing the channel
			if Now()-r.shutdownStart > 1500*time.Millisecond {
				r.doneOpenDuringShutdown++
			}
		}
	}
	if strings.HasPrefix(inv.URI, "/hijack") {
		if rec != nil {
			atomic.AddInt32(&rec.hijackCalled, 1)
		}
		ctx.Hijack(func(c net.Conn) {
			if rec != nil {
				atomic.AddInt32(&rec.hijackRan, 1)
			}
			atomic.AddInt32(&r.hijackCur, 1)
			defer atomic.AddInt32(&r.hijackCur, -1)
			br := bufio.NewReader(c)
			c.SetReadDeadline(time.Now().Add(2 * time.Minute))
			line, err := br.ReadString('\n')
			if err == nil && line == "ping\n" {
				c.Write([]byte("pong\n"))
			}
			if r.p.KeepHijacked {
				c.Close()
			}
		})
	}
	ctx.SetBodyString("ok")
	if rec != nil {
		rec.lastHandEnd = Now()
		atomic.AddInt32(&rec.completed, 1)
	}
	atomic.AddInt32(&r.cur, -1)
}

func (r *lifeRun) request(id string, a lifeAct) []byte {
	path := "/r"
	if a.Kind == "hijack" {
		path = "/hijack"
	}
	return []byte(fmt.Sprintf("GET %s?h=%d&id=%s HTTP/1.1\r\nHost: x\r\n\r\n", path, a.HandlerMs, id))
}

func (r *lifeRun) client(i int) {
	c := r.p.Conns[i]
	rec := r.recs[r.addrOf(i)]
	time.Sleep(time.Duration(c.StartMs) * time.Millisecond)
	rec.startAt = Now()
	conn, err := r.e.Net.Dial(tcpAddr(c.IP, 41000+i), r.k.Addr.String())
	if err != nil {
		rec.done = true
		rec.rejected = -1 // listener already closed
		return
	}
	rec.client = conn
	if c.CloseErr {
		conn.Peer().F.CloseErr = true
		r.e.Fault("close_error")
	}
	sc := &SeqClient{C: conn, br: bufio.NewReaderSize(conn, 1<<16)}
	if r.p.Mode == "serveconn" {
		srv := conn.Peer()
		Go("serveconn", func() { r.s.ServeConn(srv) })
	}
	var sent int64
	readOne := func() bool {
		resp, _, err := sc.ReadResp("GET", 3*time.Minute)
		if err != nil {
			rec.serverClosed = true
			return false
		}
		rec.resps = append(rec.resps, resp.Status)
		if resp.Status == 503 || resp.Status == 429 {
			rec.rejected = resp.Status
			return false
		}
		if resp.Close {
			return false
		}
		return true
	}
	write := func(b []byte) bool {
		if err := sc.Send(b, nil); err != nil {
			rec.serverClosed = true
			// a rejection response may still be readable
			readOne()
			return false
		}
		sent += int64(len(b))
		return true
	}
loop:
	for j, a := range c.Acts {
		id := fmt.Sprintf("%d-%d", i, j)
		switch a.Kind {
		case "req", "hijack":
			if !write(r.request(id, a)) {
				break loop
			}
			rec.reqEnds = append(rec.reqEnds, sent)
			if !readOne() {
				break loop
			}
			if a.Kind == "hijack" {
				if write([]byte("ping\n")) {
					conn.SetReadDeadline(time.Now().Add(2 * time.Minute))
					line, _ := sc.br.ReadString('\n')
					rec.hijackOK = line == "pong\n"
				}
				break loop
			}
		case "pipelined":
			b := append(r.request(id+"a", a), r.request(id+"b", lifeAct{Kind: "req"})...)
			if !write(b) {
				break loop
			}
			rec.reqEnds = append(rec.reqEnds, sent-int64(len(r.request(id+"b", lifeAct{Kind: "req"}))), sent)
			if !readOne() || !readOne() {
				break loop
			}
		case "partial":
			b := r.request(id, a)
			n := a.N
			if n >= len(b) {
				n = len(b) - 1
			}
			if !write(b[:n]) {
				break loop
			}
			time.Sleep(time.Duration(a.Ms) * time.Millisecond)
			if !write(b[n:]) {
				break loop
			}
			rec.reqEnds = append(rec.reqEnds, sent)
			if !readOne() {
				break loop
			}
		case "bad":
			if !write([]byte("BAD\r\n\r\n")) {
				break loop
			}
			readOne()
			break loop
		case "wait", "silent":
			time.Sleep(time.Duration(a.Ms) * time.Millisecond)
		}
	}
	if !c.EndClose && !rec.serverClosed {
		closed, _ := sc.ProbeClosed(12 * time.Minute)
		rec.serverClosed = closed
	}
	conn.Close()
	rec.done = true
}

func (r *lifeRun) addrOf(i int) string {
	return tcpAddr(r.p.Conns[i].IP, 41000+i).String()
}

func ms(n int) time.Duration { return time.Duration(n) * time.Millisecond }

func (r *lifeRun) run() {
	e, p := r.e, r.p
	s := &fasthttp.Server{
		Concurrency:           p.Concurrency,
		MaxConnsPerIP:         p.MaxPerIP,
		ReduceMemoryUsage:     p.ReduceMem,
		StreamRequestBody:     p.StreamReq,
		IdleTimeout:           ms(p.IdleTimeoutMs),
		ReadTimeout:           ms(p.ReadTimeoutMs),
		MaxIdleWorkerDuration: ms(p.MaxIdleWorkerMs),
		KeepHijackedConns:     p.KeepHijacked,
		CloseOnShutdown:       p.CloseOnShutdown,
		ConnState:             r.onState,
	}
	r.s = s
	k := NewServerKit(e, s)
	r.k = k
	k.Handle = r.handler
	for i := range p.Conns {
		r.recs[r.addrOf(i)] = &lifeConnRec{idx: i, addr: r.addrOf(i)}
	}
	if p.Mode == "serve" {
		k.Start()
		// warm-up longer than the slow-task budget: Serve has registered its
		// listener before any client or Shutdown starts (a Shutdown racing with
		// the start of Serve itself is outside these properties)
		time.Sleep(2 * time.Second)
	}
	if p.ShutdownMs >= 0 {
		Go("shutdown", func() {
			time.Sleep(ms(p.ShutdownMs))
			r.shutdownStart = Now()
			r.shutdownErr = s.Shutdown()
			r.shutdownRet = Now()
			r.judgeShutdownInstant()
		})
	}
	var fs []func()
	for i := range p.Conns {
		i := i
		fs = append(fs, func() { r.client(i) })
	}
	if !WaitAll(2*time.Hour, "client", fs...) {
		e.Violation("liveness/clients", "client connections did not finish within two simulated hours (a connection neither served nor closed)")
		return
	}
	e.Nontrivial = true
	// let the server side settle
	time.Sleep(2 * time.Second)
	switch e.Prop {
	case "C12":
		r.judgeLimits()
	case "C13":
		if p.ShutdownMs >= 0 {
			for i := 0; i < 6000 && r.shutdownRet < 0; i++ {
				time.Sleep(100 * time.Millisecond)
			}
			if r.shutdownRet < 0 {
				e.Inconclusive("Shutdown had not returned 10 simulated minutes after every client finished (C15's subject)")
				return
			}
			e.Probe("stop-mid-traffic")
			r.judgeWorkers()
			r.judgeWorkersAfterStop()
			return
		}
		r.judgeWorkers()
	case "C14":
		r.judgeStates()
	case "C15":
		r.judgeShutdownFinal()
		return
	}
	if p.Mode == "serve" {
		if !k.Shutdown(5 * time.Minute) {
			e.Violation("liveness/shutdown", "Shutdown did not return within 5 simulated minutes after every connection was closed")
			return
		}
		if e.Prop == "C13" {
			r.judgeWorkersAfterStop()
		}
	}
}

// ---------------- C14 ----------------

func (r *lifeRun) judgeStates() {
	e := r.e
	mem := "mem"
	if r.p.ReduceMem {
		mem = "reducemem"
	}
	for _, o := range r.orphan {
		e.Violation("identity", "%s", o)
		return
	}
	if !r.judgeTerminal() {
		return
	}
	for i := range r.p.Conns {
		rec := r.recs[r.addrOf(i)]
		if rec.client == nil {
			continue
		}
		e.Ob(1)
		var names []string
		for _, ev := range rec.states {
			names = append(names, ev.State.String())
		}
		seq := strings.Join(names, " ")
		if len(rec.states) == 0 {
			// rejected before admission (seen by the client, or on the wire
			// when the client never read): no calls at all
			sent := string(rec.client.Peer().Sent())
			if rec.rejected == 429 || rec.rejected == 503 || strings.HasPrefix(sent, "HTTP/1.1 429") || strings.HasPrefix(sent, "HTTP/1.1 503") {
				continue
			}
			if sent == "" && rec.client.Peer().WritesRefused() > 0 && (r.p.MaxPerIP > 0 || r.p.Concurrency > 0) {
				// the rejection was written after the client had given up (a slow accept loop):
				// nothing on the wire, and rightly no hook calls for a connection never admitted
				e.Probe("rejected-after-client-left")
				continue
			}
			e.Violation("no-calls/"+r.p.Mode, "conn %d (%s): the ConnState hook was never called (responses %v)", i, rec.addr, rec.resps)
			return
		}
		// New (Active Idle)* Active? (Closed|Hijacked)
		st := 0 // 0 expect New, 1 after New/Idle (expect Active or terminal), 2 after Active (expect Idle or terminal), 3 terminal
		for j, ev := range rec.states {
			bad := ""
			switch st {
			case 0:
				if ev.State != fasthttp.StateNew {
					bad = "first-not-new"
				} else {
					st = 1
				}
			case 1:
				switch ev.State {
				case fasthttp.StateActive:
					st = 2
				case fasthttp.StateClosed, fasthttp.StateHijacked:
					st = 3
				default:
					bad = "order"
				}
			case 2:
				switch ev.State {
				case fasthttp.StateIdle:
					st = 1
				case fasthttp.StateClosed, fasthttp.StateHijacked:
					st = 3
				default:
					bad = "order"
				}
			case 3:
				bad = "after-terminal"
			}
			if bad != "" {
				if bad == "first-not-new" {
					bad += "/" + r.p.Mode
				}
				if !e.Violation("machine/"+bad, "conn %d (%s): ConnState sequence %q: call %d (%v) is not allowed there", i, rec.addr, seq, j, ev.State) {
					break
				}
				return
			}
		}
		if st != 3 && rec.done {
			e.Violation("machine/no-terminal", "conn %d (%s): ConnState sequence %q never reached closed/hijacked although the connection is gone", i, rec.addr, seq)
			return
		}
		// active-needs-byte
		k := 0
		for _, ev := range rec.states {
			if ev.State != fasthttp.StateActive {
				continue
			}
			need := int64(1)
			if k > 0 && k-1 < len(rec.reqEnds) {
				need = rec.reqEnds[k-1] + 1
			}
			e.Ob(1)
			if ev.Arrived < need && (k == 0 || k-1 < len(rec.reqEnds)) {
				which := "first"
				if k > 0 {
					which = "keepalive"
				}
				if !e.Violation("active-needs-byte/"+which+"-"+mem, "conn %d (%s): StateActive #%d reported at step %d when only %d client bytes had arrived (a byte of request #%d needs %d); sequence %q", i, rec.addr, k, ev.Step, ev.Arrived, k, need, seq) {
					break
				}
				return
			}
			k++
		}
	}
}

// ---------------- C12 ----------------

func (r *lifeRun) judgeLimits() {
	e, p := r.e, r.p
	e.Ob(3)
	if int(r.peak) > r.limit() {
		e.Violation("peak/handlers", "%d handlers ran at once with Concurrency=%d", r.peak, r.limit())
		return
	}
	if p.Mode == "serve" && r.workersPeak > r.limit() {
		e.Violation("peak/workers", "%d connections were being served at once with Concurrency=%d", r.workersPeak, r.limit())
		return
	}
	if p.Mode == "serveconn" && int(r.concPeak) > r.limit()+len(p.Conns) {
		e.Violation("peak/concurrency-counter", "GetCurrentConcurrency reached %d", r.concPeak)
		return
	}
	// rejected connections: got 503/429, no handler, closed
	for i := range p.Conns {
		rec := r.recs[r.addrOf(i)]
		if rec.rejected == 503 || rec.rejected == 429 {
			e.Probe(fmt.Sprintf("rejected-%d", rec.rejected))
			e.Ob(1)
			if rec.invoked > 0 && rec.resps[0] == rec.rejected {
				e.Violation("rejected-served", "conn %d got %d and yet its handler ran", i, rec.rejected)
				return
			}
			if rec.rejected == 503 && p.Concurrency == 0 {
				e.Violation("rejected-below-limit/503", "conn %d got 503 although Concurrency is the default", i)
				return
			}
			if rec.rejected == 429 && p.MaxPerIP == 0 {
				e.Violation("rejected-below-limit/429", "conn %d got 429 although MaxConnsPerIP is 0", i)
				return
			}
		}
	}
	// per-IP live connections never above the limit: by construction of the
	// rejection rule, a connection admitted while MaxConnsPerIP others from
	// its address were still open on the server side is a violation
	if p.MaxPerIP > 0 {
		type span struct{ from, to time.Duration }
		byIP := map[string][]*lifeConnRec{}
		for i := range p.Conns {
			rec := r.recs[r.addrOf(i)]
			if rec.client != nil && rec.rejected != 429 && (len(rec.states) > 0 || p.Mode == "serveconn") {
				byIP[p.Conns[i].IP] = append(byIP[p.Conns[i].IP], rec)
			}
		}
		_ = span{}
		for ip, recs := range byIP {
			// admitted connections whose handler-or-serve intervals overlap at one instant
			for _, a := range recs {
				n := 0
				for _, b := range recs {
					if b.admitAt() <= a.admitAt() && b.goneAt() > a.admitAt() {
						n++
					}
				}
				e.Ob(1)
				if n > p.MaxPerIP {
					e.Violation("per-ip/peak", "%d connections from %s were admitted and open at once with MaxConnsPerIP=%d", n, ip, p.MaxPerIP)
					return
				}
			}
		}
	}
	// quiescence
	time.Sleep(3 * time.Second)
	e.Ob(2)
	if c := r.s.GetCurrentConcurrency(); c != 0 {
		e.Violation("quiescence/concurrency/"+p.Mode, "GetCurrentConcurrency()=%d after every connection was closed", c)
		return
	}
	if n := r.s.GetOpenConnectionsCount(); n != 0 {
		hij := ""
		for _, c := range p.Conns {
			for _, a := range c.Acts {
				if a.Kind == "hijack" {
					hij = "-hijack"
				}
			}
		}
		if !e.Violation("quiescence/open/"+p.Mode+hij, "GetOpenConnectionsCount()=%d after every connection was closed (mode %s)", n, p.Mode) {
			// known: keep checking the rest
		} else {
			return
		}
	}
	// per-IP counters are back to zero: MaxConnsPerIP fresh connections from
	// each address are all admitted
	if p.MaxPerIP > 0 && p.Mode == "serve" {
		for _, ip := range []string{"10.1.0.1", "10.1.0.2", "10.1.0.3"} {
			var scs []*SeqClient
			for j := 0; j < p.MaxPerIP && j < r.limit(); j++ {
				sc, err := r.k.NewSeqClient(ip, simnet.Faults{})
				if err != nil {
					break
				}
				scs = append(scs, sc)
				sc.Send([]byte("GET /fresh HTTP/1.1\r\nHost: x\r\n\r\n"), nil)
				resp, _, err := sc.ReadResp("GET", time.Minute)
				e.Ob(1)
				if err == nil && resp.Status == 503 {
					// the worker pool may refuse a connection while idle workers
					// are being retired: that says nothing about the per-IP count
					e.Probe("fresh-conn-503-while-workers-retire")
					break
				}
				if err != nil || resp.Status != 200 {
					st := 0
					if resp != nil {
						st = resp.Status
					}
					e.Violation("quiescence/per-ip","after every connection was closed, fresh connection #%d from %s was not admitted (status %d, err %v): the per-IP count did not return to zero", j+1, ip, st, err)
					return
				}
			}
			for _, sc := range scs {
				sc.C.Close()
			}
			// longer than the run's whole slow-task budget (3 holds x 300 ms),
			// so a worker frozen while releasing cannot explain a rejection
			time.Sleep(1500 * time.Millisecond)
		}
	}
}

func (rec *lifeConnRec) admitAt() time.Duration {
	if len(rec.states) > 0 {
		return rec.states[0].At
	}
	return rec.startAt
}

// goneAt: when the server side endpoint was closed (upper bound: terminal state time).
func (rec *lifeConnRec) goneAt() time.Duration {
	if rec.client != nil && !rec.client.Peer().Closed() {
		return 1 << 62
	}
	for _, ev := range rec.states {
		if ev.State == fasthttp.StateClosed {
			// Close precedes the hook; conservatively use the hook time minus nothing
			return ev.At
		}
	}
	return rec.lastHandEnd
}

// judgeTerminal: the terminal report matches what happened to the connection:
// StateHijacked only for a connection whose handler hijacked it, StateClosed
// for the others, and a connection that was not hijacked is closed by the server.
func (r *lifeRun) judgeTerminal() bool {
	e := r.e
	for i := range r.p.Conns {
		rec := r.recs[r.addrOf(i)]
		if rec.client == nil || len(rec.states) == 0 {
			continue
		}
		last := rec.states[len(rec.states)-1].State
		e.Ob(1)
		if last == fasthttp.StateHijacked && atomic.LoadInt32(&rec.hijackCalled) == 0 {
			e.Violation("terminal/hijacked-not-hijacked", "conn %d (%s): reported StateHijacked although no handler on it called Hijack", i, rec.addr)
			return false
		}
		if last == fasthttp.StateClosed && atomic.LoadInt32(&rec.hijackRan) > 0 {
			e.Violation("terminal/closed-but-hijacked", "conn %d (%s): its hijack handler ran, yet the connection was reported StateClosed", i, rec.addr)
			return false
		}
		if atomic.LoadInt32(&rec.hijackCalled) == 0 && (last == fasthttp.StateClosed || last == fasthttp.StateHijacked) && !rec.client.Peer().Closed() {
			e.Violation("terminal/not-closed", "conn %d (%s): reported %v and never hijacked, yet its server side was never closed", i, rec.addr, last)
			return false
		}
	}
	return true
}

// ---------------- C13 ----------------

func (r *lifeRun) judgeWorkers() {
	e, p := r.e, r.p
	e.Ob(2)
	if r.workersPeak > r.limit() {
		e.Violation("bound", "%d worker tasks existed at once with MaxWorkersCount=%d", r.workersPeak, r.limit())
		return
	}
	for _, o := range r.orphan {
		e.Violation("identity", "%s", o)
		return
	}
	if !r.judgeTerminal() {
		return
	}
	if p.TrickleCheckMs > 0 && r.trickleSeen {
		e.Ob(1)
		e.Probe("trickle")
		if r.trickleWorkers > 2 {
			e.Violation("idle-retire/during-trickle", "%d worker tasks exist %v after a burst of 3 connections, although only one short connection at a time has been served since (MaxIdleWorkerDuration %v): idle workers are not retired while the pool is in use", r.trickleWorkers, ms(p.TrickleCheckMs), ms(p.MaxIdleWorkerMs))
			return
		}
	}
	for i := range p.Conns {
		rec := r.recs[r.addrOf(i)]
		if rec.client == nil || rec.rejected == 429 {
			continue
		}
		e.Ob(1)
		term, news := 0, 0
		for _, ev := range rec.states {
			switch ev.State {
			case fasthttp.StateClosed, fasthttp.StateHijacked:
				term++
			case fasthttp.StateNew:
				news++
			}
		}
		if news == 1 && term != 1 {
			e.Violation("served-once", "conn %d: accepted once but reported closed/hijacked %d times", i, term)
			return
		}
		if news == 1 && rec.rejected == 0 && !rec.client.Peer().Closed() && !(p.KeepHijacked && atomic.LoadInt32(&rec.hijackCalled) > 0) {
			e.Violation("lost", "conn %d: accepted but its server side was never closed", i)
			return
		}
		if rec.rejected == 503 && rec.invoked > 0 {
			e.Violation("rejected-served", "conn %d: rejected with 503 and served", i)
			return
		}
	}
	// idle workers retire
	idle := ms(p.MaxIdleWorkerMs)
	if idle <= 0 {
		idle = 10 * time.Second
	}
	time.Sleep(2*idle + time.Second)
	e.Ob(1)
	if n := simrt.CensusMatch("workerPool.getCh"); n != 0 {
		e.Violation("idle-retire", "%d worker tasks still exist %v after the last connection was closed (MaxIdleWorkerDuration %v)", n, 2*idle+3*time.Second, idle)
		return
	}
}

func (r *lifeRun) judgeWorkersAfterStop() {
	// the cleaner notices Stop after its current sleep (one idle period)
	idle := ms(r.p.MaxIdleWorkerMs)
	if idle <= 0 {
		idle = 10 * time.Second
	}
	time.Sleep(idle + 2*time.Second)
	r.e.Ob(1)
	if n := simrt.CensusMatch("workerPool."); n != 0 {
		r.e.Violation("after-stop", "%d worker-pool tasks (workers or cleaner) remain after Serve returned and Stop was called: %v", n, simrt.Census())
	}
}

// ---------------- C15 ----------------

func (r *lifeRun) judgeShutdownInstant() {
	e := r.e
	if r.shutdownErr != nil {
		e.Inconclusive("Shutdown returned %v", r.shutdownErr)
		return
	}
	e.Ob(3)
	if !r.k.Ln.IsClosed() {
		e.Violation("listener-open", "Shutdown returned nil and the listener is still open")
		return
	}
	if n := atomic.LoadInt32(&r.cur); n != 0 {
		e.Violation("handler-running", "Shutdown returned nil while %d request handlers were still running", n)
		return
	}
	// Serve has returned (give its task a moment to run its last statements)
	time.Sleep(time.Millisecond)
	select {
	case <-r.k.served:
	default:
		e.Violation("serve-not-returned", "Shutdown returned nil and Serve had not returned 1 ms later")
	}
}

func (r *lifeRun) judgeShutdownFinal() {
	e, p := r.e, r.p
	if r.shutdownRet < 0 {
		// wait for it, bounded
		for i := 0; i < 6000 && r.shutdownRet < 0; i++ {
			time.Sleep(100 * time.Millisecond)
		}
		if r.shutdownRet < 0 {
			e.Violation("liveness/shutdown", "Shutdown had not returned 10 simulated minutes after every client finished")
			return
		}
	}
	if r.doneOpenDuringShutdown > 0 {
		e.Violation("done-open", "%d handlers that ran while Shutdown was in progress saw ctx.Done() still open", r.doneOpenDuringShutdown)
		return
	}
	// every started handler had its response delivered (unless the client left first)
	latest := r.shutdownStart
	for i := range p.Conns {
		rec := r.recs[r.addrOf(i)]
		if rec.client == nil {
			continue
		}
		e.Ob(1)
		inv := int(atomic.LoadInt32(&rec.invoked))
		if inv > len(rec.resps) && !p.Conns[i].EndClose {
			e.Violation("response-lost", "conn %d: %d handlers started but the client received %d responses (%v) before the connection was closed", i, inv, len(rec.resps), rec.resps)
			return
		}
		if rec.lastHandEnd > latest {
			latest = rec.lastHandEnd
		}
		if t := rec.startAt + 5*time.Second; t > latest && rec.startAt <= r.shutdownRet {
			latest = t
		}
	}
	// idle connections are closed, not waited for: with long timeouts Shutdown
	// must be back shortly after the last handler ended / the 5 s new-connection grace
	e.Ob(1)
	bound := latest + 3*time.Second + 3*300*time.Millisecond
	for _, c := range p.Conns {
		for _, a := range c.Acts {
			if a.Kind == "partial" {
				bound += ms(a.Ms) // a request in the middle of arriving is not idle
			}
		}
	}
	if r.shutdownRet > bound && (p.IdleTimeoutMs == 0 || p.IdleTimeoutMs > 60000) && p.ReadTimeoutMs == 0 {
		e.Violation("idle-waited", "Shutdown started at %v and returned at %v; the last handler ended (or new-connection grace expired) at %v: idle connections were waited for instead of closed", r.shutdownStart, r.shutdownRet, latest)
		return
	}
	if p.SecondRound && !e.Failed() && r.shutdownErr == nil {
		r.secondRound()
	}
}

// secondRound serves the same Server again on a new listener and shuts it
// down while a request is in flight: the guarantees hold for every
// Serve/Shutdown round, not only the first.
func (r *lifeRun) secondRound() {
	e := r.e
	addr := tcpAddr("10.0.0.1", 81)
	ln := e.Net.Listen(addr)
	served := make(chan struct{})
	Go("serve", func() {
		r.s.Serve(ln)
		close(served)
	})
	time.Sleep(2 * time.Second)
	cl := tcpAddr("10.1.0.9", 45000)
	r.recs[cl.String()] = &lifeConnRec{idx: -1, addr: cl.String()}
	conn, err := e.Net.Dial(cl, addr.String())
	if err != nil {
		e.Violation("round2/dial", "the re-served Server does not accept connections: %v", err)
		return
	}
	sc := &SeqClient{C: conn, br: bufio.NewReaderSize(conn, 1<<16)}
	sc.Send([]byte("GET /round2 HTTP/1.1\r\nHost: x\r\n\r\n"), nil)
	for i := 0; i < 100 && atomic.LoadInt32(&r.round2Started) == 0; i++ {
		time.Sleep(100 * time.Millisecond)
	}
	e.Ob(4)
	if atomic.LoadInt32(&r.round2Started) == 0 {
		e.Violation("round2/not-served", "a request sent to the re-served Server did not reach its handler within 10 simulated seconds")
		return
	}
	e.Probe("second-round")
	start := Now()
	ret := make(chan error, 1)
	Go("shutdown", func() { ret <- r.s.Shutdown() })
	var serr error
	select {
	case serr = <-ret:
	case <-time.After(3 * time.Minute):
		e.Violation("round2/shutdown-hangs", "second Shutdown of the same Server (a request was in flight, waiting for ctx.Done()) had not returned after 3 simulated minutes; Done observed closed: %v", atomic.LoadInt32(&r.round2Done) > 0)
		return
	}
	if serr != nil {
		e.Inconclusive("second Shutdown returned %v", serr)
		return
	}
	if atomic.LoadInt32(&r.round2Done) == 0 {
		e.Violation("round2/done-open", "second round: ctx.Done() was not closed while Shutdown was in progress (Shutdown took %v)", Now()-start)
		return
	}
	if !ln.IsClosed() {
		e.Violation("round2/listener-open", "second Shutdown returned nil and the listener is still open")
		return
	}
	resp, _, err := sc.ReadResp("GET", time.Minute)
	if err != nil || resp == nil || string(resp.Body) != "round2" {
		e.Violation("round2/response-lost", "second round: the in-flight request's response was not delivered (err=%v)", err)
		return
	}
	time.Sleep(time.Millisecond)
	select {
	case <-served:
	default:
		e.Violation("round2/serve-not-returned", "second Shutdown returned nil and Serve had not returned 1 ms later")
	}
	conn.Close()
}
