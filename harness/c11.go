package harness

import (
	"bytes"
	"fmt"
	"mime/multipart"
	"net"
	"sort"
	"strconv"
	"strings"
	"sync"
	"time"

	"github.com/valyala/fasthttp"
	"verif/simrt/simnet"
)

// C11: no request observes state left over from an earlier request; decisions
// made for one request do not change how a later one is dispatched.

type c11Req struct {
	ID      string      `json:"id"`
	Kind    string      `json:"kind"` // normal timeout hijack expect-reject bad multipart form
	Method  string      `json:"method"`
	Query   [][2]string `json:"query,omitempty"`
	Headers [][2]string `json:"headers,omitempty"`
	Cookies [][2]string `json:"cookies,omitempty"`
	Body    string      `json:"body,omitempty"`
	Form    [][2]string `json:"form,omitempty"`
	Chunked bool        `json:"chunked,omitempty"`
	First   string      `json:"handler_first_touches,omitempty"` // what the handler looks at before anything else: "" | header-string | copyto | multipart
	ctype   string
	wire    []byte
}

type c11Plan struct {
	ReduceMem bool        `json:"reduce_memory_usage"`
	Stream    bool        `json:"stream_request_body"`
	Conns     [][]c11Req `json:"conns"`
	Pools     bool        `json:"adversarial_pools"`
	Pipeline  bool        `json:"clients_pipeline_pairs,omitempty"` // two plain requests are sent in one segment: the second is buffered while the first is served
}

func init() { scenarios["C11"] = scenC11 }

func genC11Req(e *Env, id string) c11Req {
	r := c11Req{ID: id, Kind: Pick(e, "normal", "normal", "normal", "normal", "form", "multipart", "timeout", "hijack", "expect-reject", "bad"), Method: "GET"}
	nq := e.Range(0, 3)
	for i := 0; i < nq; i++ {
		r.Query = append(r.Query, [2]string{fmt.Sprintf("q%d", e.Int(3)), id + "-" + fmt.Sprint(i)})
	}
	nh := e.Range(0, 3)
	for i := 0; i < nh; i++ {
		r.Headers = append(r.Headers, [2]string{fmt.Sprintf("X-Own-%d", e.Int(4)), "h-" + id + "-" + fmt.Sprint(i)})
	}
	if e.Chance(40) {
		r.Headers = append(r.Headers, [2]string{"User-Agent", "ua-" + id})
	}
	nc := e.Range(0, 2)
	for i := 0; i < nc; i++ {
		r.Cookies = append(r.Cookies, [2]string{fmt.Sprintf("c%d", i), "ck-" + id})
	}
	switch r.Kind {
	case "form":
		r.Method = "POST"
		r.ctype = "application/x-www-form-urlencoded"
		n := e.Range(1, 3)
		var parts []string
		for i := 0; i < n; i++ {
			kv := [2]string{fmt.Sprintf("f%d", e.Int(3)), "fv-" + id + "-" + fmt.Sprint(i)}
			r.Form = append(r.Form, kv)
			parts = append(parts, kv[0]+"="+kv[1])
		}
		r.Body = strings.Join(parts, "&")
	case "multipart":
		r.Method = "POST"
		var b bytes.Buffer
		w := multipart.NewWriter(&b)
		w.SetBoundary("bnd" + strings.ReplaceAll(id, "-", "x"))
		kv := [2]string{"mf", "mv-" + id}
		r.Form = append(r.Form, kv)
		w.WriteField(kv[0], kv[1])
		fw, _ := w.CreateFormFile("file", "f-"+id+".txt")
		fw.Write([]byte("file-" + id))
		w.Close()
		r.ctype = w.FormDataContentType()
		r.Body = b.String()
	case "normal", "timeout", "hijack", "expect-reject":
		if e.Chance(50) {
			r.Method = Pick(e, "POST", "PUT")
			r.Body = "body-" + id + strings.Repeat("x", Pick(e, 0, 10, 200))
			r.ctype = "text/x-" + id
			r.Chunked = e.Chance(25)
		}
	}
	if len(r.Body) <= 64 && r.Kind != "bad" && e.Chance(25) {
		r.Headers = append(r.Headers, [2]string{"X-Own-Limit", "64"})
	}
	if r.Kind == "expect-reject" && r.Method == "GET" {
		r.Method = "POST"
		r.Body = "body-" + id
		r.ctype = "text/x-" + id
		if e.Chance(35) {
			r.Body = "" // an expectation on a request that declares an empty body is still an expectation
		}
	}
	r.First = Pick(e, "", "", "header-string", "copyto", "multipart")
	// wire form
	var b bytes.Buffer
	target := "/id-" + id
	if len(r.Query) > 0 {
		var qs []string
		for _, q := range r.Query {
			qs = append(qs, q[0]+"="+q[1])
		}
		target += "?" + strings.Join(qs, "&")
	}
	if r.Kind == "bad" {
		b.WriteString("GET /id-" + id + " HTTP/1.1\r\nHost x no colon\r\n\r\n")
		r.wire = b.Bytes()
		return r
	}
	fmt.Fprintf(&b, "%s %s HTTP/1.1\r\nHost: h-%s\r\nX-Kind: %s\r\n", r.Method, target, id, r.Kind)
	for _, h := range r.Headers {
		fmt.Fprintf(&b, "%s: %s\r\n", h[0], h[1])
	}
	if len(r.Cookies) > 0 {
		var cs []string
		for _, c := range r.Cookies {
			cs = append(cs, c[0]+"="+c[1])
		}
		fmt.Fprintf(&b, "Cookie: %s\r\n", strings.Join(cs, "; "))
	}
	if r.ctype != "" {
		fmt.Fprintf(&b, "Content-Type: %s\r\n", r.ctype)
	}
	if r.Kind == "expect-reject" {
		b.WriteString("Expect: 100-continue\r\nX-Reject: 1\r\n")
	}
	if r.Method != "GET" {
		if r.Chunked && r.Kind != "multipart" {
			b.WriteString("Transfer-Encoding: chunked\r\n\r\n")
			if r.Kind != "expect-reject" {
				fmt.Fprintf(&b, "%x\r\n%s\r\n0\r\n\r\n", len(r.Body), r.Body)
			}
		} else {
			fmt.Fprintf(&b, "Content-Length: %d\r\n\r\n", len(r.Body))
			if r.Kind != "expect-reject" { // polite client: no body after a final response
				b.WriteString(r.Body)
			}
		}
	} else {
		b.WriteString("\r\n")
	}
	r.wire = b.Bytes()
	return r
}

func scenC11(e *Env) func() {
	p := &c11Plan{ReduceMem: e.Chance(40), Stream: e.Chance(40), Pools: e.Chance(75), Pipeline: e.Chance(35)}
	nconn := e.Range(2, 4)
	for ci := 0; ci < nconn; ci++ {
		var rs []c11Req
		n := e.Range(2, 6)
		for i := 0; i < n; i++ {
			rs = append(rs, genC11Req(e, fmt.Sprintf("%d-%d", ci, i)))
		}
		p.Conns = append(p.Conns, rs)
	}
	e.Sample = p
	e.Cfg.PoolAdversarial = p.Pools
	e.Cfg.Holds, e.Cfg.HoldMax = Pick(e, 0, 0, 2), 100*time.Millisecond
	return func() { c11Run(e, p) }
}

func kvList(kvs [][2]string) string {
	var s []string
	for _, kv := range kvs {
		s = append(s, kv[0]+"="+kv[1])
	}
	return strings.Join(s, "&")
}

func c11Run(e *Env, p *c11Plan) {
	byID := map[string]*c11Req{}
	for ci := range p.Conns {
		for i := range p.Conns[ci] {
			byID[p.Conns[ci][i].ID] = &p.Conns[ci][i]
		}
	}
	s := &fasthttp.Server{ReduceMemoryUsage: p.ReduceMem, StreamRequestBody: p.Stream, IdleTimeout: time.Minute,
		ContinueHandler: func(h *fasthttp.RequestHeader) bool { return len(h.Peek("X-Reject")) == 0 },
		// a per-request body limit for requests that ask for one: it must not
		// stick to the connection
		HeaderReceived: func(h *fasthttp.RequestHeader) fasthttp.RequestConfig {
			if v, err := strconv.Atoi(string(h.Peek("X-Own-Limit"))); err == nil && v > 0 {
				return fasthttp.RequestConfig{MaxRequestBodySize: v}
			}
			return fasthttp.RequestConfig{}
		}}
	k := NewServerKit(e, s)
	k.SkipBody = true
	k.SkipHeaders = true
	var mu sync.Mutex
	dispatched := map[string]int{}
	k.Handle = func(ctx *fasthttp.RequestCtx, inv *Inv) {
		id := strings.TrimPrefix(string(ctx.Path()), "/id-")
		r := byID[id]
		if r == nil {
			e.Violation("dispatch/unknown", "handler invoked for %s %s, which no client sent", inv.Method, inv.URI)
			return
		}
		mu.Lock()
		dispatched[id]++
		mu.Unlock()
		e.Ob(1)
		bad := func(field, got, want string) {
			e.Violation("leak/request-"+field, "request %s (%s): handler sees %s = %q, the client sent %q", id, r.Kind, field, clip(got, 300), clip(want, 300))
		}
		// ---- lazily maintained state: look at a derived view before any accessor ----
		ownVals := func(what, dump string) {
			// every value that names a request must name this one
			for _, f := range strings.FieldsFunc(dump, func(c rune) bool { return c == '\n' || c == '\r' || c == ';' || c == ' ' || c == '&' }) {
				for _, pre := range []string{"ck-", "h-", "ua-", "fv-", "mv-", "body-"} {
					if i := strings.Index(f, pre); i >= 0 {
						rest := f[i+len(pre):]
						if !strings.HasPrefix(rest, id) && !strings.HasPrefix(rest, "id-"+id) {
							bad(what, f, "values of request "+id+" only")
							return
						}
					}
				}
			}
		}
		switch r.First {
		case "header-string":
			ownVals("header-string", ctx.Request.Header.String())
		case "copyto":
			var cp fasthttp.Request
			ctx.Request.CopyTo(&cp)
			ownVals("copy", cp.Header.String())
			var ck2 [][2]string
			for kk, v := range cp.Header.Cookies() {
				ck2 = append(ck2, [2]string{string(kk), string(v)})
			}
			if kvList(ck2) != kvList(r.Cookies) {
				bad("copy-cookies", kvList(ck2), kvList(r.Cookies))
			}
		case "multipart":
			if r.Kind != "multipart" {
				if f, err := ctx.MultipartForm(); err == nil {
					bad("multipart-form", fmt.Sprint(f.Value), "no multipart form (the request is not multipart)")
				}
			}
		}
		// ---- request snapshot vs what was sent ----
		if string(ctx.Method()) != r.Method {
			bad("method", string(ctx.Method()), r.Method)
		}
		var q [][2]string
		for kk, v := range ctx.QueryArgs().All() {
			q = append(q, [2]string{string(kk), string(v)})
		}
		if kvList(q) != kvList(r.Query) {
			bad("query", kvList(q), kvList(r.Query))
		}
		if string(ctx.Host()) != "h-"+id {
			bad("host", string(ctx.Host()), "h-"+id)
		}
		// headers: every X-Own-* header must be one of ours, with our values, in order
		var own [][2]string
		for kk, v := range ctx.Request.Header.All() {
			if strings.HasPrefix(string(kk), "X-Own-") || string(kk) == "X-Req-Leak" {
				own = append(own, [2]string{string(kk), string(v)})
			}
		}
		var wantOwn [][2]string
		for _, h := range r.Headers {
			if strings.HasPrefix(h[0], "X-Own-") {
				wantOwn = append(wantOwn, h)
			}
		}
		if kvList(own) != kvList(wantOwn) {
			bad("headers", kvList(own), kvList(wantOwn))
		}
		wantUA := ""
		for _, h := range r.Headers {
			if h[0] == "User-Agent" {
				wantUA = h[1]
			}
		}
		if string(ctx.UserAgent()) != wantUA {
			bad("user-agent", string(ctx.UserAgent()), wantUA)
		}
		var ck [][2]string
		for kk, v := range ctx.Request.Header.Cookies() {
			ck = append(ck, [2]string{string(kk), string(v)})
		}
		if kvList(ck) != kvList(r.Cookies) {
			bad("cookies", kvList(ck), kvList(r.Cookies))
		}
		if got := string(ctx.Request.Header.ContentType()); got != r.ctype {
			bad("content-type", got, r.ctype)
		}
		switch r.Kind {
		case "multipart":
			f, err := ctx.MultipartForm()
			if err != nil {
				bad("multipart", err.Error(), "a parsed form")
			} else {
				if v := f.Value["mf"]; len(v) != 1 || v[0] != r.Form[0][1] || len(f.Value) != 1 {
					bad("multipart-values", fmt.Sprint(f.Value), fmt.Sprint(r.Form))
				}
				if fh := f.File["file"]; len(fh) != 1 || fh[0].Filename != "f-"+id+".txt" || len(f.File) != 1 {
					bad("multipart-files", fmt.Sprint(len(f.File)), "1 file f-"+id+".txt")
				}
			}
		default:
			if got := string(ctx.PostBody()); got != r.Body {
				bad("body", got, r.Body)
			}
			if f, err := ctx.MultipartForm(); err == nil {
				bad("multipart-form", fmt.Sprint(f.Value), "no multipart form (the request is not multipart)")
			}
			var pa [][2]string
			for kk, v := range ctx.PostArgs().All() {
				pa = append(pa, [2]string{string(kk), string(v)})
			}
			want := ""
			if r.Kind == "form" {
				want = kvList(r.Form)
			}
			if kvList(pa) != want {
				bad("post-args", kvList(pa), want)
			}
		}
		// ---- fresh context ----
		nuv := 0
		ctx.VisitUserValuesAll(func(any, any) { nuv++ })
		if nuv != 0 || ctx.UserValue("leak") != nil {
			e.Violation("leak/user-values", "request %s: %d user values present on handler entry (leak=%v)", id, nuv, ctx.UserValue("leak"))
		}
		if ctx.Response.StatusCode() != 200 {
			e.Violation("leak/response-status", "request %s: response status is %d on handler entry", id, ctx.Response.StatusCode())
		}
		if len(ctx.Response.Body()) != 0 {
			e.Violation("leak/response-body", "request %s: response body is %q on handler entry", id, clip(string(ctx.Response.Body()), 100))
		}
		for kk, v := range ctx.Response.Header.All() {
			ks := string(kk)
			if strings.HasPrefix(ks, "X-Leak") || ks == "Set-Cookie" || (ks == "Content-Type" && string(v) != "text/plain; charset=utf-8") {
				e.Violation("leak/response-header", "request %s: response header %s: %s present on handler entry", id, ks, v)
			}
		}
		if ctx.Response.ConnectionClose() {
			e.Violation("leak/response-close", "request %s: response already marked Connection: close on handler entry", id)
		}
		if ctx.Hijacked() {
			e.Violation("leak/hijacked", "request %s: context already hijacked on handler entry", id)
		}
		// ---- mutate everything reachable ----
		ctx.SetUserValue("leak", id)
		ctx.SetUserValueBytes([]byte("leakb"), id)
		ctx.Response.Header.Set("X-Leak-"+id, id)
		ctx.Response.Header.Set("X-Leak", id)
		var c fasthttp.Cookie
		c.SetKey("rc")
		c.SetValue(id)
		ctx.Response.Header.SetCookie(&c)
		ctx.SetContentType("x/leak-" + id)
		ctx.SetStatusCode(201)
		if strings.HasSuffix(id, "1") || strings.HasSuffix(id, "3") {
			ctx.Response.Header.SetStatusMessage([]byte("Leak " + id))
		}
		ctx.SetBodyString("resp-" + id)
		ctx.Request.Header.Set("X-Req-Leak", id)
		ctx.Request.Header.Set("X-Own-0", "mutated-"+id)
		ctx.Request.Header.SetCookie("leakc", id)
		ctx.Request.Header.SetUserAgent("leak-ua-" + id)
		ctx.QueryArgs().Add("leakq", id)
		ctx.PostArgs().Add("leakp", id)
		if !strings.HasSuffix(id, "0") && !strings.HasSuffix(id, "2") {
			// (SetBody* removes a parsed multipart form by itself: leave it alone for a part of the requests)
			ctx.Request.SetBodyString("leak-body-" + id)
		}
		ctx.Request.Header.SetContentType("x/leak-req")
		switch r.Kind {
		case "timeout":
			ctx.TimeoutError("timeout-" + id)
		case "hijack":
			ctx.Hijack(func(c net.Conn) {})
		}
	}
	k.Start()
	type connOut struct {
		resps []*Resp
		ids   []string
	}
	outs := make([]connOut, len(p.Conns))
	var fs []func()
	for ci := range p.Conns {
		ci := ci
		fs = append(fs, func() {
			var sc *SeqClient
			plain := func(r *c11Req) bool { return r.Kind == "normal" || r.Kind == "form" || r.Kind == "multipart" }
			pending := false // the previous iteration already sent this request (pipelined pair)
			for i := range p.Conns[ci] {
				r := &p.Conns[ci][i]
				if sc == nil {
					var err error
					if sc, err = k.NewSeqClient(fmt.Sprintf("10.0.11.%d", ci+1), simnet.Faults{}); err != nil {
						return
					}
					pending = false
				}
				wire, cuts := r.wire, e0cuts(len(r.wire), ci+i)
				pair := false
				if p.Pipeline && !pending && i+1 < len(p.Conns[ci]) && plain(r) && plain(&p.Conns[ci][i+1]) {
					wire, cuts, pair = append(append([]byte(nil), r.wire...), p.Conns[ci][i+1].wire...), nil, true
				}
				if pending {
					pending = false
				} else if err := sc.Send(wire, cuts); err != nil {
					sc.C.Close()
					sc = nil
					continue
				}
				pending = pair
				resp, _, err := sc.ReadResp(r.Method, time.Minute)
				if err != nil {
					sc.C.Close()
					sc = nil
					continue
				}
				outs[ci].resps = append(outs[ci].resps, resp)
				outs[ci].ids = append(outs[ci].ids, r.ID)
				if resp.Close || r.Kind == "hijack" || r.Kind == "bad" {
					sc.C.Close()
					sc = nil
				}
			}
			if sc != nil {
				sc.C.Close()
			}
		})
	}
	if !WaitAll(time.Hour, "conn", fs...) {
		e.Violation("liveness/clients", "clients did not finish")
		return
	}
	e.Nontrivial = true
	// client side: each response is exactly what its own handler built
	for ci := range outs {
		for j, resp := range outs[ci].resps {
			id := outs[ci].ids[j]
			r := byID[id]
			e.Ob(1)
			var leaks []string
			for name, vals := range resp.Header {
				if strings.HasPrefix(name, "X-Leak") {
					for _, v := range vals {
						if v != id {
							leaks = append(leaks, name+"="+v)
						}
					}
				}
			}
			sort.Strings(leaks)
			if len(leaks) > 0 {
				e.Violation("leak/to-client-header", "response to %s (%s) carries headers set by other requests' handlers: %v", id, r.Kind, leaks)
				return
			}
			mu.Lock()
			n := dispatched[id]
			mu.Unlock()
			switch r.Kind {
			case "normal", "form", "multipart", "hijack":
				wantLine := "201 Created"
				if strings.HasSuffix(id, "1") || strings.HasSuffix(id, "3") {
					wantLine = "201 Leak " + id
				}
				if resp.Status == 201 && resp.StatusLine != wantLine {
					e.Violation("leak/to-client-status-message", "response to %s has status line %q, its handler built %q", id, resp.StatusLine, wantLine)
					return
				}
				if resp.Status >= 400 && r.Kind != "hijack" {
					e.Violation("dispatch/rejected", "well-formed request %s (%s, %d-byte body) was answered %q without reaching its handler", id, r.Kind, len(r.Body), resp.StatusLine)
					return
				}
				if resp.Status == 201 && string(resp.Body) != "resp-"+id {
					e.Violation("leak/to-client-body", "response to %s has body %q", id, clip(string(resp.Body), 100))
					return
				}
				if resp.Status == 200 && n == 0 {
					e.Violation("dispatch/skipped", "request %s (%s) was answered 200 without its handler being called", id, r.Kind)
					return
				}
			case "timeout":
				if n > 0 && (resp.Status != 408 || string(resp.Body) != "timeout-"+id) {
					e.Violation("timeout-response", "timed-out request %s answered %d %q", id, resp.Status, clip(string(resp.Body), 100))
					return
				}
				if vals := resp.Header.Values("Set-Cookie"); len(vals) > 0 || resp.Header.Get("X-Leak") != "" {
					e.Violation("leak/timeout-response", "timeout response of %s carries handler-set headers %v", id, resp.Header)
					return
				}
			case "expect-reject":
				if n > 0 {
					e.Violation("dispatch/rejected-ran", "request %s was rejected by ContinueHandler yet its handler ran", id)
					return
				}
			}
		}
	}
	k.Shutdown(time.Minute)
}

// e0cuts: a fixed, plan-independent segmentation (first byte alone for odd k).
func e0cuts(n, k int) []int {
	if k%2 == 1 && n > 1 {
		return []int{1, n - 1}
	}
	return nil
}
