//go:build race

package simrt

import (
	"runtime"
	"unsafe"
)

const RaceEnabled = true

func RaceOff() { runtime.RaceDisable() }
func RaceOn()  { runtime.RaceEnable() }

func RaceAcquire(p unsafe.Pointer)      { runtime.RaceAcquire(p) }
func RaceReleaseMerge(p unsafe.Pointer) { runtime.RaceReleaseMerge(p) }
