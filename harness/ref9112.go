package harness

import (
	"bytes"
	"strings"
)

// Independent reference for RFC 9112 request framing (§2.2, §5, §6, §7.1). It
// shares no code with fasthttp. It classifies each message of a pipelined byte
// stream as
//
//	OK         framed unambiguously; Method/Target/Body/End are authoritative
//	AMBIG      framing is ambiguous or invalid in one of the ways the property
//	           lists; Class names the construct. Nothing may follow it.
//	INCOMPLETE the stream ends inside the message
//	OUTSIDE    malformed in a way the property does not classify (bad request
//	           line, header line without colon, ...): no verdict from here on
type refKind int

const (
	refOK refKind = iota
	refAmbig
	refIncomplete
	refOutside
)

type refMsg struct {
	Kind    refKind
	Class   string
	Method  string
	Target  string
	Version string
	Body    []byte
	Start   int
	End     int      // offset just past the message (OK only)
	Notes   []string // tolerated constructs seen: bare-lf, obs-fold, leading-empty-line, trailers, chunk-ext
	Headers [][2]string
}

func (m refMsg) note(s string) bool {
	for _, n := range m.Notes {
		if n == s {
			return true
		}
	}
	return false
}

// readLine returns the line without its terminator, the offset after it, and
// whether the terminator was a bare LF. ok=false: no LF in the rest.
func readLine(b []byte, off int) (line []byte, next int, bare bool, ok bool) {
	i := bytes.IndexByte(b[off:], '\n')
	if i < 0 {
		return nil, off, false, false
	}
	line = b[off : off+i]
	next = off + i + 1
	if n := len(line); n > 0 && line[n-1] == '\r' {
		return line[:n-1], next, false, true
	}
	return line, next, true, true
}

func isTchar(c byte) bool {
	if c >= '0' && c <= '9' || c >= 'a' && c <= 'z' || c >= 'A' && c <= 'Z' {
		return true
	}
	return strings.IndexByte("!#$%&'*+-.^_`|~", c) >= 0
}

func isToken(s string) bool {
	if s == "" {
		return false
	}
	for i := 0; i < len(s); i++ {
		if !isTchar(s[i]) {
			return false
		}
	}
	return true
}

func trimOWS(s string) string { return strings.Trim(s, " \t") }

// parseCL: 1*DIGIT fitting in 63 bits.
func parseCL(s string) (int64, bool) {
	if s == "" || len(s) > 18 {
		return 0, false
	}
	var n int64
	for i := 0; i < len(s); i++ {
		if s[i] < '0' || s[i] > '9' {
			return 0, false
		}
		n = n*10 + int64(s[i]-'0')
	}
	return n, true
}

func refParse(stream []byte) []refMsg {
	var out []refMsg
	off := 0
	for off < len(stream) {
		m := refParseOne(stream, off)
		out = append(out, m)
		if m.Kind != refOK {
			break
		}
		off = m.End
	}
	return out
}

func refParseOne(b []byte, off int) refMsg {
	m := refMsg{Start: off}
	add := func(n string) {
		if !m.note(n) {
			m.Notes = append(m.Notes, n)
		}
	}
	// leading empty lines
	var line []byte
	var bare, ok bool
	for {
		line, off, bare, ok = readLine(b, off)
		if !ok {
			m.Kind = refIncomplete
			return m
		}
		if len(line) != 0 {
			break
		}
		add("leading-empty-line")
		if off >= len(b) {
			m.Kind = refIncomplete
			return m
		}
	}
	if bare {
		add("bare-lf")
	}
	parts := strings.Split(string(line), " ")
	if len(parts) != 3 || !isToken(parts[0]) || parts[1] == "" || (parts[2] != "HTTP/1.1" && parts[2] != "HTTP/1.0") {
		m.Kind = refOutside
		m.Class = "request-line"
		return m
	}
	for i := 0; i < len(parts[1]); i++ {
		if c := parts[1][i]; c <= ' ' || c == 0x7f {
			m.Kind = refOutside
			m.Class = "request-target"
			return m
		}
	}
	m.Method, m.Target, m.Version = parts[0], parts[1], parts[2]
	// header section
	type hdr struct{ name, value string }
	var hs []hdr
	wsColonFraming := false
	for {
		line, off, bare, ok = readLine(b, off)
		if !ok {
			m.Kind = refIncomplete
			return m
		}
		if bare {
			add("bare-lf")
		}
		if len(line) == 0 {
			break
		}
		if line[0] == ' ' || line[0] == '\t' {
			add("obs-fold")
			if len(hs) == 0 {
				m.Kind = refOutside
				m.Class = "leading-whitespace-line"
				return m
			}
			hs[len(hs)-1].value = trimOWS(hs[len(hs)-1].value + " " + trimOWS(string(line)))
			continue
		}
		i := bytes.IndexByte(line, ':')
		if i <= 0 {
			m.Kind = refOutside
			m.Class = "header-line"
			return m
		}
		name := string(line[:i])
		if t := strings.TrimRight(name, " \t"); t != name {
			add("ws-before-colon")
			ln := strings.ToLower(t)
			if ln == "content-length" || ln == "transfer-encoding" {
				wsColonFraming = true
			}
			name = t
		}
		if !isToken(name) {
			ln := strings.ToLower(strings.Trim(name, " \t"))
			if strings.Contains(ln, "content-length") || strings.Contains(ln, "transfer-encoding") {
				wsColonFraming = true
			} else {
				m.Kind = refOutside
				m.Class = "header-name"
				return m
			}
		}
		val := trimOWS(string(line[i+1:]))
		for k := 0; k < len(val); k++ {
			if c := val[k]; (c < ' ' && c != '\t') || c == 0x7f {
				m.Kind = refOutside
				m.Class = "header-value-ctl"
				return m
			}
		}
		hs = append(hs, hdr{name, val})
	}
	var cls, tes []string
	for _, h := range hs {
		m.Headers = append(m.Headers, [2]string{h.name, h.value})
		switch strings.ToLower(h.name) {
		case "content-length":
			for _, v := range strings.Split(h.value, ",") {
				cls = append(cls, trimOWS(v))
			}
		case "transfer-encoding":
			for _, v := range strings.Split(h.value, ",") {
				tes = append(tes, strings.ToLower(trimOWS(v)))
			}
		}
	}
	ambig := func(c string) refMsg {
		m.Kind, m.Class = refAmbig, c
		return m
	}
	if wsColonFraming {
		return ambig("ws-colon-framing")
	}
	if m.note("obs-fold") {
		// a folded framing field is read differently by different parsers
		for _, h := range hs {
			ln := strings.ToLower(h.name)
			if (ln == "content-length" || ln == "transfer-encoding") && strings.Contains(h.value, " ") {
				return ambig("folded-framing")
			}
		}
	}
	if len(tes) > 0 {
		if m.Version == "HTTP/1.0" {
			return ambig("te-http10")
		}
		if len(cls) > 0 {
			return ambig("cl+te")
		}
		if tes[len(tes)-1] != "chunked" {
			if len(tes) == 1 && tes[0] == "identity" {
				return ambig("te-identity")
			}
			return ambig("te-not-chunked")
		}
		for _, t := range tes[:len(tes)-1] {
			if t == "chunked" {
				return ambig("te-chunked-twice")
			}
			if !isToken(t) {
				return ambig("te-malformed")
			}
		}
		if len(tes) > 1 {
			// other codings before the final chunked: framing is still chunked
			add("te-extra-codings")
		}
		return refChunked(b, off, m)
	}
	if len(cls) > 0 {
		if len(cls) > 1 {
			return ambig("cl-duplicate")
		}
		n, ok := parseCL(cls[0])
		if !ok {
			return ambig("cl-malformed")
		}
		if int64(len(b)-off) < n {
			m.Kind = refIncomplete
			return m
		}
		m.Body = b[off : off+int(n)]
		m.End = off + int(n)
		return m
	}
	m.End = off
	return m
}

func refChunked(b []byte, off int, m refMsg) refMsg {
	var body []byte
	bad := func(c string) refMsg {
		m.Kind, m.Class = refAmbig, "chunk-"+c
		return m
	}
	for {
		line, next, bare, ok := readLine(b, off)
		if !ok {
			m.Kind = refIncomplete
			return m
		}
		if bare {
			return bad("bare-lf")
		}
		off = next
		s := string(line)
		if i := strings.IndexByte(s, ';'); i >= 0 {
			m.Notes = append(m.Notes, "chunk-ext")
			ext := s[i+1:]
			s = s[:i]
			for k := 0; k < len(ext); k++ {
				if c := ext[k]; (c < ' ' && c != '\t') || c == 0x7f {
					return bad("ext-ctl")
				}
			}
			// BWS before ';' is grammatically allowed but must be rejected or stripped
			s = strings.TrimRight(s, " \t")
		}
		// trailing whitespace after the size is outside the grammar but frames
		// identically under every reading that accepts it: tolerated
		if t := strings.TrimRight(s, " \t"); t != s {
			m.Notes = append(m.Notes, "chunk-size-ows")
			s = t
		}
		if s == "" || len(s) > 15 {
			return bad("size")
		}
		var n int64
		for i := 0; i < len(s); i++ {
			c := s[i]
			var d int64
			switch {
			case c >= '0' && c <= '9':
				d = int64(c - '0')
			case c >= 'a' && c <= 'f':
				d = int64(c-'a') + 10
			case c >= 'A' && c <= 'F':
				d = int64(c-'A') + 10
			default:
				return bad("size")
			}
			n = n*16 + d
		}
		if n == 0 {
			break
		}
		if int64(len(b)-off) < n {
			m.Kind = refIncomplete
			return m
		}
		body = append(body, b[off:off+int(n)]...)
		off += int(n)
		if len(b)-off < 2 {
			if len(b)-off == 1 && b[off] != '\r' {
				return bad("data-terminator")
			}
			m.Kind = refIncomplete
			return m
		}
		if b[off] != '\r' || b[off+1] != '\n' {
			return bad("data-terminator")
		}
		off += 2
	}
	// trailer section
	for {
		line, next, bare, ok := readLine(b, off)
		if !ok {
			m.Kind = refIncomplete
			return m
		}
		off = next
		if bare {
			// the trailer section is a field section: RFC 9112 2.2 lets a
			// recipient take a bare LF as the line terminator there
			m.Notes = append(m.Notes, "bare-lf")
		}
		if len(line) == 0 {
			break
		}
		m.Notes = append(m.Notes, "trailers")
		i := bytes.IndexByte(line, ':')
		if i <= 0 || !isToken(string(line[:i])) {
			return bad("trailer")
		}
	}
	if body == nil {
		body = []byte{}
	}
	m.Body = body
	m.End = off
	return m
}
