package simrt

import "fmt"

type Ordered interface{ SimOrder() uint64 }

func KeyLess(a, b any) bool {
	switch x := a.(type) {
	case string:
		return x < b.(string)
	case int:
		return x < b.(int)
	case uint32:
		return x < b.(uint32)
	case Ordered:
		return x.SimOrder() < b.(Ordered).SimOrder()
	}
	return fmt.Sprint(a) < fmt.Sprint(b)
}
