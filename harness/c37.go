package harness

// C37: documented-concurrent APIs are free of data races. The scenarios of the
// concurrent properties are re-run on the -race build of the harness; the
// scheduler's own hand-offs are hidden from the detector (simrt.RaceOff), so
// a report is a function of the tape. Reports are parsed and filtered by
// verifctl (both racing accesses must be made by fasthttp code).

var c37Subs = []string{"C04", "C11", "C12", "C15", "C16", "C18", "C22", "C25", "C38", "C40", "C41", "C13", "C03", "C10", "C17", "C21",
	"C02", "C20", "C24", "C33", "C34", "C35", "C36"}

func init() { scenarios["C37"] = scenC37 }

func scenC37(e *Env) func() {
	sub := c37Subs[e.Int(len(c37Subs))]
	e.RaceOnly = true
	root := scenarios[sub](e)
	e.Sample = map[string]any{"scenario": sub, "plan": e.Sample}
	e.Probes["scenario-"+sub]++
	return func() {
		root()
		e.Nontrivial = true
	}
}
