package harness

import (
	"errors"
	"fmt"
	"os"
	"time"

	"github.com/valyala/fasthttp/prefork"
	"verif/simrt"
	"verif/simrt/simexec"
)

// C39: prefork keeps its children supervised and never orphans them.

type c39Child struct {
	LifeMs     int  `json:"life_ms"` // -1: runs until signalled
	ExitErr    bool `json:"exit_err"`
	IgnoreTerm bool `json:"ignore_term"`
	TermMs     int  `json:"term_delay_ms"`
}

type c39Plan struct {
	Threshold   int        `json:"recover_threshold"`
	IntervalMs  int        `json:"recover_interval_ms"`
	GraceMs     int        `json:"shutdown_grace_ms"`
	SpawnFailAt int        `json:"spawn_fail_at"`  // -1 never
	HookFailAt  int        `json:"on_child_spawn_fail_at"` // -1 never
	ReadyFails  bool       `json:"on_master_ready_fails"`
	Children    []c39Child `json:"children"` // by spawn index
}

func init() { scenarios["C39"] = scenC39 }

func scenC39(e *Env) func() {
	p := &c39Plan{Threshold: Pick(e, 0, 1, 2, 3), IntervalMs: Pick(e, 0, 50, 1000), GraceMs: Pick(e, 100, 1000, 0), SpawnFailAt: -1, HookFailAt: -1, ReadyFails: e.Chance(8)}
	if e.Chance(20) {
		p.SpawnFailAt = e.Int(8)
	}
	if e.Chance(20) {
		p.HookFailAt = e.Int(8)
	}
	for i := 0; i < 16; i++ {
		c := c39Child{LifeMs: Pick(e, -1, -1, 10, 300, 2000, 0), ExitErr: e.Chance(40), IgnoreTerm: e.Chance(20), TermMs: Pick(e, 0, 0, 50, 3000)}
		p.Children = append(p.Children, c)
	}
	e.Sample = p
	e.Cfg.Holds, e.Cfg.HoldMax = Pick(e, 0, 0, 2), 20*time.Millisecond
	return func() { c39Run(e, p) }
}

func c39Run(e *Env, p *c39Plan) {
	procs := simrt.GOMAXPROCS(0)
	spawned := 0
	hookCalls := 0
	var cmds []*simexec.Cmd
	errSpawn := errors.New("simulated spawn failure")
	errHook := errors.New("simulated hook failure")
	errReady := errors.New("simulated OnMasterReady failure")
	pf := &prefork.Prefork{
		Reuseport:           true,
		RecoverThreshold:    p.Threshold,
		RecoverInterval:     time.Duration(p.IntervalMs) * time.Millisecond,
		ShutdownGracePeriod: time.Duration(p.GraceMs) * time.Millisecond,
		Logger:              nullLogger{},
		CommandProducer: func(files []*os.File) (*simexec.Cmd, error) {
			k := spawned
			spawned++
			if k == p.SpawnFailAt {
				e.Fault("spawn_fail")
				return nil, errSpawn
			}
			c := p.Children[k%len(p.Children)]
			var xerr error
			if c.ExitErr {
				xerr = errors.New("exit status 1")
			}
			life := time.Duration(c.LifeMs) * time.Millisecond
			if c.LifeMs < 0 {
				life = -1
			}
			cmd := simexec.Spawn(1000+k, life, xerr, c.IgnoreTerm, time.Duration(c.TermMs)*time.Millisecond)
			cmds = append(cmds, cmd)
			return cmd, nil
		},
		OnChildSpawn: func(pid int) error {
			k := hookCalls
			hookCalls++
			if k == p.HookFailAt {
				e.Fault("hook_error")
				return errHook
			}
			return nil
		},
		OnMasterReady: func(pids []int) error {
			if p.ReadyFails {
				e.Fault("ready_hook_error")
				return errReady
			}
			return nil
		},
	}
	var ret error
	returned := make(chan struct{})
	retAt := time.Duration(-1)
	Go("prefork-master", func() {
		ret = pf.ListenAndServe("10.39.0.1:80")
		retAt = Now()
		close(returned)
	})
	observe := 20 * time.Second
	tm := time.NewTimer(observe)
	running := false
	select {
	case <-returned:
	case <-tm.C:
		running = true
	}
	tm.Stop()
	e.Nontrivial = true
	evs := simexec.Events()
	grace := time.Duration(p.GraceMs) * time.Millisecond
	if grace <= 0 {
		grace = 5 * time.Second
	}
	interval := time.Duration(p.IntervalMs) * time.Millisecond
	holdBudget := time.Duration(e.Cfg.Holds) * e.Cfg.HoldMax
	exitAt := map[int]time.Duration{}
	spawnAt := map[int]time.Duration{}
	reaped := map[int]bool{}
	signalled := map[int]bool{}
	var order []int
	for _, ev := range evs {
		switch ev.Kind {
		case "spawn":
			spawnAt[ev.Pid] = ev.At
			order = append(order, ev.Pid)
		case "exit":
			exitAt[ev.Pid] = ev.At
		case "reap":
			reaped[ev.Pid] = true
		case "signal", "kill":
			signalled[ev.Pid] = true
		}
	}
	if running {
		// still supervising: the fleet is complete (every exit older than
		// RecoverInterval + slack has been replaced)
		e.Ob(1)
		live := 0
		pendingRecovery := false
		for _, c := range cmds {
			if c.Process.Alive() {
				live++
			} else if Now()-exitAt[c.Process.Pid] < interval+holdBudget+500*time.Millisecond {
				pendingRecovery = true
			}
		}
		if !pendingRecovery && live != procs {
			e.Violation("fleet-size", "master still running after %v with %d live children, GOMAXPROCS=%d (spawned %d, threshold %d)", observe, live, procs, len(cmds), p.Threshold)
			return
		}
		exits := 0
		for range exitAt {
			exits++
		}
		if exits > p.Threshold {
			e.Violation("over-recovery-not-returned", "%d children exited with RecoverThreshold=%d and the master is still running", exits, p.Threshold)
		}
		return
	}
	// returned: which path?
	e.Ob(3)
	path := "other"
	switch {
	case errors.Is(ret, prefork.ErrOverRecovery):
		path = "over-recovery"
	case errors.Is(ret, errSpawn):
		path = "spawn-failure"
	case errors.Is(ret, errHook):
		path = "hook-error"
	case errors.Is(ret, errReady):
		path = "ready-error"
	}
	e.Probe("return-" + path)
	if path == "other" {
		e.Violation("unexpected-return", "prefork returned %v", ret)
		return
	}
	// every started child was reaped before prefork returned, none is alive
	for _, c := range cmds {
		pid := c.Process.Pid
		if c.Process.Alive() {
			e.Violation("orphan/"+path, "prefork returned (%v) while child %d is still running (ignore_term=%v)", ret, pid, c.Process.IgnoreTerm)
			return
		}
		if !reaped[pid] {
			e.Violation("not-reaped/"+path, "prefork returned (%v) without waiting for child %d", ret, pid)
			return
		}
		if exitAt[pid] > retAt {
			e.Violation("orphan/"+path, "child %d exited at %v, after prefork returned at %v", pid, exitAt[pid], retAt)
			return
		}
	}
	// recovery timing: a replacement is spawned no earlier than RecoverInterval after the exit it replaces
	if interval > 0 {
		var exits []time.Duration
		for _, pid := range order {
			if t, ok := exitAt[pid]; ok {
				exits = append(exits, t)
			}
		}
		for i := procs; i < len(order); i++ {
			// the i-th spawn (i>=procs) replaces some exit: at least one exit must be >= interval old
			t := spawnAt[order[i]]
			ok := false
			for _, x := range exits {
				if t-x >= interval-time.Millisecond {
					ok = true
				}
			}
			e.Ob(1)
			if !ok {
				e.Violation("recover-interval", "replacement child %d was spawned at %v, less than RecoverInterval=%v after any child exit", order[i], t, interval)
				return
			}
		}
	}
	if path == "over-recovery" {
		exits := 0
		for _, t := range exitAt {
			if t <= retAt {
				exits++
			}
		}
		_ = exits
	}
	// no task of the prefork package survives
	time.Sleep(time.Second)
	e.Ob(1)
	if n := simrt.CensusMatch("prefork.go"); n != 0 {
		e.Violation("task-leak/"+path, "%d prefork goroutines are still alive after it returned: %v", n, simrt.Census())
		return
	}
	_ = fmt.Sprint
	_ = signalled
}
