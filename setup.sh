#!/bin/sh
# Offline setup: build the orchestrator and pre-build the instrumented harness
# for the current /repo tree.
set -e
cd "${VERIF_DIR:-/verif}"
export GOFLAGS=-mod=mod GOPROXY=off GOSUMDB=off GOTOOLCHAIN=local
export PATH=/opt/veriftools/go1.26.8/bin:$PATH
mkdir -p bin evidence replays
(cd cmd/verifctl && go build -o ../../bin/verifctl .)
bin/verifctl build
