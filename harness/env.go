package harness

import (
	"encoding/json"
	"fmt"
	"net"
	"os"
	"strings"
	"sync"
	"time"

	"verif/simrt"
	"verif/simrt/simnet"
)

// Env is the per-run context shared by the scenario's generator, its actors
// and its oracle.
type Env struct {
	Prop string
	Seed uint64
	Tier string
	W    *simrt.Tape
	Net  *simnet.Net
	Cfg  simrt.Config

	mu           sync.Mutex
	sig, detail  string
	inconcl      string
	known        []string
	knownSigs    map[string]bool
	harnessPanic string
	notes        []string

	RaceOnly   bool
	Oblig      int
	Nontrivial bool
	Probes     map[string]int
	Faults     map[string]int
	Sample     any
}

var scenarios = map[string]func(e *Env) func(){}

// Known-finding signatures are loaded by verifctl, not here: the run reports
// every violation signature; the orchestrator decides which are known.

// Violation records the first violation of the run. sig is the narrow
// signature "<rule>/<discriminator>".
//
// It returns false when the signature is a listed known finding: the hit is
// only counted and the caller should stop judging the affected connection.
//
//go:norace
func (e *Env) Violation(sig, format string, args ...any) bool {
	simrt.RaceOff()
	defer simrt.RaceOn()
	e.mu.Lock()
	defer e.mu.Unlock()
	full := e.Prop + "/" + sig
	if e.RaceOnly && !strings.HasPrefix(sig, "race/") && !strings.HasPrefix(sig, "panic/") {
		// C37 re-runs other properties' scenarios for the race detector only;
		// their own oracles are judged by their own checks
		return true
	}
	if e.knownSigs[full] {
		for _, k := range e.known {
			if k == full {
				return false
			}
		}
		e.known = append(e.known, full)
		return false
	}
	if e.sig == "" {
		e.sig = full
		e.detail = fmt.Sprintf(format, args...)
	}
	return true
}

func (e *Env) loadKnown(path string) {
	e.knownSigs = map[string]bool{}
	if path == "" {
		return
	}
	b, err := os.ReadFile(path)
	if err != nil {
		return
	}
	var fs []struct {
		Property, Signature, Status string
	}
	if json.Unmarshal(b, &fs) != nil {
		return
	}
	for _, f := range fs {
		if f.Property == e.Prop && f.Status == "known" {
			e.knownSigs[f.Signature] = true
		}
	}
}

// KnownOr records a violation unless its signature is in the run's
// known-finding allowance (set through -known); then it is only counted.
//
//go:norace
func (e *Env) Failed() bool {
	simrt.RaceOff()
	e.mu.Lock()
	b := e.sig != ""
	e.mu.Unlock()
	simrt.RaceOn()
	return b
}

//go:norace
func (e *Env) Inconclusive(format string, args ...any) {
	simrt.RaceOff()
	e.mu.Lock()
	if e.inconcl == "" {
		e.inconcl = fmt.Sprintf(format, args...)
	}
	e.mu.Unlock()
	simrt.RaceOn()
}

//go:norace
func (e *Env) Probe(name string) {
	simrt.RaceOff()
	e.mu.Lock()
	e.Probes[name]++
	e.mu.Unlock()
	simrt.RaceOn()
}

//go:norace
func (e *Env) Fault(name string) {
	simrt.RaceOff()
	e.mu.Lock()
	e.Faults[name]++
	e.mu.Unlock()
	simrt.RaceOn()
}

//go:norace
func (e *Env) Ob(n int) {
	simrt.RaceOff()
	e.mu.Lock()
	e.Oblig += n
	e.mu.Unlock()
	simrt.RaceOn()
}

//go:norace
func (e *Env) Note(format string, args ...any) {
	simrt.RaceOff()
	e.mu.Lock()
	if len(e.notes) < 400 {
		e.notes = append(e.notes, fmt.Sprintf("[t=%v step=%d] ", time.Since(simrt.Epoch), simrt.Step())+fmt.Sprintf(format, args...))
	}
	e.mu.Unlock()
	simrt.RaceOn()
}

// ---- generator helpers over the workload tape ----

func (e *Env) Int(n int) int      { return e.W.Draw(n) }
func (e *Env) Bool() bool         { return e.W.Draw(2) == 1 }
func (e *Env) Chance(pct int) bool { return e.W.Draw(100) < pct }
func (e *Env) Range(lo, hi int) int {
	if hi <= lo {
		return lo
	}
	return lo + e.W.Draw(hi-lo+1)
}
func Pick[T any](e *Env, xs ...T) T { return xs[e.W.Draw(len(xs))] }

func (e *Env) Thorough() bool { return e.Tier == "thorough" }

// Bytes generates n bytes from a small alphabet (first element is the simplest).
func (e *Env) Bytes(n int, alphabet string) []byte {
	b := make([]byte, n)
	for i := range b {
		b[i] = alphabet[e.W.Draw(len(alphabet))]
	}
	return b
}

// Cuts splits [0,n) into tape-chosen segment lengths (sum n). A zero tape
// yields a single segment.
func (e *Env) Cuts(n int, maxCuts int) []int {
	if n <= 1 || maxCuts <= 0 {
		return []int{n}
	}
	k := e.W.Draw(maxCuts + 1)
	pts := map[int]bool{}
	for i := 0; i < k; i++ {
		pts[1+e.W.Draw(n-1)] = true
	}
	var out []int
	last := 0
	for i := 1; i < n; i++ {
		if pts[i] {
			out = append(out, i-last)
			last = i
		}
	}
	return append(out, n-last)
}

// ---- addresses ----

func tcpAddr(ip string, port int) *net.TCPAddr {
	return &net.TCPAddr{IP: net.ParseIP(ip).To4(), Port: port}
}

// Sleep is a simulated sleep by an actor.
func Sleep(d time.Duration) { time.Sleep(d) }

// Go starts a harness actor task.
func Go(name string, f func()) { simrt.Go("actor:"+name, f) }

// WaitAll runs fs as actor tasks and waits for all of them, up to a simulated timeout.
func WaitAll(timeout time.Duration, names string, fs ...func()) bool {
	done := make(chan struct{}, len(fs))
	for i, f := range fs {
		f := f
		Go(fmt.Sprintf("%s%d", names, i), func() {
			defer func() { done <- struct{}{} }()
			f()
		})
	}
	tm := time.NewTimer(timeout)
	defer tm.Stop()
	for range fs {
		select {
		case <-done:
		case <-tm.C:
			return false
		}
	}
	return true
}
